#!/bin/bash
# seedconfirm.sh <outdir> <id>  : confirm a sub-agent's seeded change in a fresh scratch worktree of /repo HEAD
#   - demo passes without the change (3x), fails with it (3x), unedited suite passes with it
#   - on success packages /verif/seeded/<id>/{patch.diff,demo_test.go,meta.json(+confirmed_by_me)}
# Race demos: pass RACE=1.
set -u
OUT=$1; ID=$2
export GOFLAGS=-mod=mod GOPROXY=off
W=/tmp/conf-$ID
git -C /repo worktree remove --force $W 2>/dev/null; rm -rf $W
git -C /repo worktree add -q --detach $W HEAD || exit 2
cp $OUT/demo_test.go $W/leader/zz_demo_test.go
TESTNAME=$(grep -o '^func Test[A-Za-z0-9_]*' $OUT/demo_test.go | grep -i demo | head -1 | sed 's/func //')
RACEFLAG=""; [ "${RACE:-0}" = 1 ] && RACEFLAG="-race"
run_demo() { (cd $W && go test $RACEFLAG -vet=off -count=1 -timeout 300s -run "^$TESTNAME\$" ./leader/ >/tmp/conf-$ID.log 2>&1); }
okw=0; for i in 1 2 3; do run_demo && okw=$((okw+1)); done
echo "without change: demo passed $okw/3"
if ! git -C $W apply $OUT/patch.diff; then echo "PATCH DOES NOT APPLY"; exit 1; fi
failw=0; for i in 1 2 3; do run_demo || failw=$((failw+1)); done
echo "with change: demo failed $failw/3"; tail -5 /tmp/conf-$ID.log
mv $W/leader/zz_demo_test.go /tmp/conf-$ID-demo.go
(cd $W && go test -vet=off -count=1 -timeout 25m ./leader/ ./internal/... >/tmp/conf-$ID.suite.log 2>&1); suite=$?
echo "suite with change: exit $suite"; tail -3 /tmp/conf-$ID.suite.log
git -C /repo worktree remove --force $W; rm -f /tmp/conf-$ID-demo.go
if [ $okw = 3 ] && [ $failw = 3 ] && [ $suite = 0 ]; then
  mkdir -p /verif/seeded/$ID
  cp $OUT/patch.diff $OUT/demo_test.go /verif/seeded/$ID/
  python3 - "$OUT" "$ID" <<'PY'
import json,sys
out,i=sys.argv[1:3]
m=json.load(open(out+'/meta.json'))
m['confirmed_by_me']={"demo_fails_with_change":True,"demo_passes_without_change":True,"suite_passes_with_change":True,
  "how":"tools/seedconfirm.sh: fresh scratch worktree of /repo HEAD, demo run 3x without the change (3 passes) and 3x with it (3 failures), then `go test -vet=off -count=1 ./leader/ ./internal/...` with the change and without the demo file"}
m['base_commit_of_patch']=__import__('subprocess').check_output(['git','-C','/repo','rev-parse','--short','HEAD']).decode().strip()
m['how_run']="git -C /repo apply seeded/%s/patch.diff && ./vcheck run <prop> --tier quick ; git -C /repo checkout -- ."%i
json.dump(m,open('/verif/seeded/%s/meta.json'%i,'w'),indent=1)
PY
  echo "CONFIRMED $ID"
else
  echo "NOT CONFIRMED $ID"; exit 1
fi
