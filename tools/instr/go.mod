module instr

go 1.26
