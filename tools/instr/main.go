// instr rewrites a scratch copy of the library's non-test sources:
//   - verifPreLock("<func>") before every statement  x.Lock() / x.RLock()
//   - verifHeld(1) after it, verifHeld(-1) before every x.Unlock() / x.RUnlock()
//     (also inside `defer x.Unlock()`)
//   - verifPreLock("<func>:unlocked") after every statement x.Unlock() / x.RUnlock()
// so that the simulator can preempt a goroutine immediately before any lock acquisition and
// never parks one that holds a lock. If a lock call appears in a form it does not handle, it
// reports it and exits with status 3: the build then uses the uninstrumented tree.
package main

import (
	"fmt"
	"go/ast"
	"go/format"
	"go/parser"
	"go/token"
	"os"
	"path/filepath"
	"strings"
)

func lockCall(e ast.Expr) (string, ast.Expr) {
	c, ok := e.(*ast.CallExpr)
	if !ok || len(c.Args) != 0 {
		return "", nil
	}
	s, ok := c.Fun.(*ast.SelectorExpr)
	if !ok {
		return "", nil
	}
	switch s.Sel.Name {
	case "Lock", "RLock", "Unlock", "RUnlock":
		return s.Sel.Name, c
	}
	return "", nil
}

func call(name string, args ...ast.Expr) ast.Stmt {
	return &ast.ExprStmt{X: &ast.CallExpr{Fun: ast.NewIdent(name), Args: args}}
}

func lit(s string) ast.Expr { return &ast.BasicLit{Kind: token.STRING, Value: fmt.Sprintf("%q", s)} }
func num(s string) ast.Expr { return &ast.BasicLit{Kind: token.INT, Value: s} }

type rewriter struct {
	fn      string
	handled map[ast.Expr]bool
	sites   int
}

func (r *rewriter) stmts(list []ast.Stmt) []ast.Stmt {
	var out []ast.Stmt
	for _, st := range list {
		switch s := st.(type) {
		case *ast.ExprStmt:
			if name, c := lockCall(s.X); c != nil && !r.handled[c] {
				r.handled[c] = true
				r.sites++
				switch name {
				case "Lock", "RLock":
					out = append(out, call("verifPreLock", lit(r.fn)), st, call("verifHeld", num("1")))
				default:
					// and a yield right after the release: the moment a waiter gets in
					out = append(out, call("verifHeld", &ast.UnaryExpr{Op: token.SUB, X: num("1")}), st, call("verifPreLock", lit(r.fn+":unlocked")))
				}
				continue
			}
		case *ast.DeferStmt:
			if name, c := lockCall(s.Call); c != nil && (name == "Unlock" || name == "RUnlock") {
				r.handled[c] = true
				r.sites++
				fl := &ast.FuncLit{Type: &ast.FuncType{Params: &ast.FieldList{}}, Body: &ast.BlockStmt{List: []ast.Stmt{
					call("verifHeld", &ast.UnaryExpr{Op: token.SUB, X: num("1")}), &ast.ExprStmt{X: c}}}}
				out = append(out, &ast.DeferStmt{Call: &ast.CallExpr{Fun: fl}})
				continue
			}
		}
		out = append(out, st)
	}
	return out
}

func main() {
	dir := os.Args[1]
	files, _ := filepath.Glob(filepath.Join(dir, "*.go"))
	total := 0
	for _, path := range files {
		base := filepath.Base(path)
		if strings.HasSuffix(base, "_test.go") || strings.HasPrefix(base, "verif_") || strings.HasPrefix(base, "test_") || base == "embedded_nats_server.go" || base == "chaos_test_helpers.go" {
			continue
		}
		fset := token.NewFileSet()
		f, err := parser.ParseFile(fset, path, nil, parser.ParseComments)
		if err != nil {
			fmt.Fprintf(os.Stderr, "instr: %v\n", err)
			os.Exit(2)
		}
		r := &rewriter{handled: map[ast.Expr]bool{}}
		for _, d := range f.Decls {
			fd, ok := d.(*ast.FuncDecl)
			if !ok || fd.Body == nil {
				continue
			}
			r.fn = fd.Name.Name
			ast.Inspect(fd.Body, func(n ast.Node) bool {
				switch b := n.(type) {
				case *ast.BlockStmt:
					b.List = r.stmts(b.List)
				case *ast.CaseClause:
					b.Body = r.stmts(b.Body)
				case *ast.CommClause:
					b.Body = r.stmts(b.Body)
				}
				return true
			})
		}
		// any lock call left that was not handled?
		bad := false
		ast.Inspect(f, func(n ast.Node) bool {
			if e, ok := n.(ast.Expr); ok {
				if name, c := lockCall(e); c != nil && !r.handled[c] {
					fmt.Fprintf(os.Stderr, "instr: %s: %s() in a form that is not instrumented (%s)\n", fset.Position(c.Pos()), name, base)
					bad = true
				}
			}
			return true
		})
		if bad {
			os.Exit(3)
		}
		if r.sites == 0 {
			continue
		}
		total += r.sites
		out, err := os.Create(path)
		if err != nil {
			fmt.Fprintln(os.Stderr, err)
			os.Exit(2)
		}
		if err := format.Node(out, fset, f); err != nil {
			fmt.Fprintf(os.Stderr, "instr: printing %s: %v\n", path, err)
			os.Exit(2)
		}
		out.Close()
	}
	fmt.Printf("instrumented %d lock/unlock sites\n", total)
}
