// instr rewrites a scratch copy of the library's non-test sources:
//   - verifPreLock("<func>") before every statement  x.Lock() / x.RLock()
//   - verifHeld(1) after it, verifHeld(-1) before every x.Unlock() / x.RUnlock()
//     (also inside `defer x.Unlock()`)
//   - verifPreLock("<func>:unlocked") after every statement x.Unlock() / x.RUnlock(), and after the
//     unlock inside `defer x.Unlock()` (i.e. when the function returns)
//   - verifPreLock("@L:<lock>") / ("@R:<lock>") before every Lock/RLock and verifPreLock("@U:<lock>")
//     before every unlock, where <lock> names the mutex by the struct type that owns it
//     (e.g. kvElection.mu): record-only calls from which the simulator builds the order in which
//     locks are nested (lock-order cycles = potential deadlocks)
//
// so that the simulator can preempt a goroutine immediately before any lock acquisition and
// never parks one that holds a lock. If a lock call appears in a form it does not handle, it
// reports it and exits with status 3: the build then uses the uninstrumented tree.
package main

import (
	"fmt"
	"go/ast"
	"go/format"
	"go/parser"
	"go/token"
	"os"
	"path/filepath"
	"strings"
)

func lockCall(e ast.Expr) (string, ast.Expr) {
	c, ok := e.(*ast.CallExpr)
	if !ok || len(c.Args) != 0 {
		return "", nil
	}
	s, ok := c.Fun.(*ast.SelectorExpr)
	if !ok {
		return "", nil
	}
	switch s.Sel.Name {
	case "Lock", "RLock", "Unlock", "RUnlock":
		return s.Sel.Name, c
	}
	return "", nil
}

func call(name string, args ...ast.Expr) ast.Stmt {
	return &ast.ExprStmt{X: &ast.CallExpr{Fun: ast.NewIdent(name), Args: args}}
}

func chr(s string) ast.Expr { return &ast.BasicLit{Kind: token.CHAR, Value: s} }

// addrOf: &x for the call x.Lock()
func addrOf(c ast.Expr) ast.Expr {
	return &ast.UnaryExpr{Op: token.AND, X: c.(*ast.CallExpr).Fun.(*ast.SelectorExpr).X}
}

func lit(s string) ast.Expr { return &ast.BasicLit{Kind: token.STRING, Value: fmt.Sprintf("%q", s)} }
func num(s string) ast.Expr { return &ast.BasicLit{Kind: token.INT, Value: s} }

type rewriter struct {
	fn      string
	handled map[ast.Expr]bool
	sites   int
	vars    map[string]string // identifier -> struct type (receiver, parameters)
	// statements already given an atomic-operation yield (a block is visited once, but be safe)
	seenStmt map[ast.Stmt]bool
}

// structFields: struct type -> field -> type name (pointers and package qualifiers stripped)
var structFields = map[string]map[string]string{}

func typeName(e ast.Expr) string {
	switch t := e.(type) {
	case *ast.StarExpr:
		return typeName(t.X)
	case *ast.Ident:
		return t.Name
	case *ast.SelectorExpr:
		return typeName(t.X) + "." + t.Sel.Name
	}
	return ""
}

func exprString(e ast.Expr) string {
	switch t := e.(type) {
	case *ast.Ident:
		return t.Name
	case *ast.SelectorExpr:
		return exprString(t.X) + "." + t.Sel.Name
	}
	return "?"
}

// lockName names the mutex of the call x.Lock(): "<struct type>.<field>" when the chain of
// selectors can be resolved from the receiver or a parameter, else "<func>:<expression>".
func (r *rewriter) lockName(c ast.Expr) string {
	call := c.(*ast.CallExpr)
	x := call.Fun.(*ast.SelectorExpr).X
	var chain []string
	cur := x
	for {
		if s, ok := cur.(*ast.SelectorExpr); ok {
			chain = append([]string{s.Sel.Name}, chain...)
			cur = s.X
			continue
		}
		break
	}
	if id, ok := cur.(*ast.Ident); ok && len(chain) > 0 {
		if t := r.vars[id.Name]; t != "" {
			for _, f := range chain[:len(chain)-1] {
				t = structFields[t][f]
				if t == "" {
					break
				}
			}
			if t != "" {
				return t + "." + chain[len(chain)-1]
			}
		}
	}
	return r.fn + ":" + exprString(x)
}

// atomicOp: the node contains a call x.f.Load() / Store / Swap / CompareAndSwap / Add on a struct
// field (function literals are not entered).
func atomicOp(n ast.Node) bool {
	if n == nil {
		return false
	}
	found := false
	ast.Inspect(n, func(m ast.Node) bool {
		if found {
			return false
		}
		if _, ok := m.(*ast.FuncLit); ok {
			return false
		}
		c, ok := m.(*ast.CallExpr)
		if !ok {
			return true
		}
		sel, ok := c.Fun.(*ast.SelectorExpr)
		if !ok {
			return true
		}
		switch sel.Sel.Name {
		case "Load", "Store", "Swap", "CompareAndSwap", "Add":
			if _, ok := sel.X.(*ast.SelectorExpr); ok {
				found = true
			}
		}
		return true
	})
	return found
}

// atomicStmt: the statement itself (not the blocks nested in it) performs an atomic operation.
func atomicStmt(st ast.Stmt) bool {
	switch s := st.(type) {
	case *ast.ExprStmt:
		return atomicOp(s.X)
	case *ast.AssignStmt:
		for _, e := range s.Rhs {
			if atomicOp(e) {
				return true
			}
		}
	case *ast.ReturnStmt:
		for _, e := range s.Results {
			if atomicOp(e) {
				return true
			}
		}
	case *ast.IfStmt:
		return atomicOp(s.Init) || atomicOp(s.Cond)
	case *ast.SwitchStmt:
		return atomicOp(s.Init) || atomicOp(s.Tag)
	}
	return false
}

func (r *rewriter) stmts(list []ast.Stmt) []ast.Stmt {
	var out []ast.Stmt
	for _, st := range list {
		if !r.seenStmt[st] && atomicStmt(st) {
			// a preemption point in front of every statement that reads or writes an atomic field:
			// lock-free readers see the intermediate states of a critical section (only used by plans
			// that park goroutines inside critical sections)
			r.seenStmt[st] = true
			r.sites++
			out = append(out, call("verifPreLock", lit(r.fn+"@a")))
		}
		switch s := st.(type) {
		case *ast.ExprStmt:
			if name, c := lockCall(s.X); c != nil && !r.handled[c] {
				r.handled[c] = true
				r.sites++
				ln := r.lockName(c)
				switch name {
				case "Lock", "RLock":
					tag := "@L:"
					if name == "RLock" {
						tag = "@R:"
					}
					// (the lock's identity: 'l'/'r' = about to acquire - the simulator may hold the goroutine
					// back here while a goroutine it parked inside a critical section owns the mutex -,
					// 'L'/'R' = acquired, 'U' = released)
					pre, post := "'l'", "'L'"
					if name == "RLock" {
						pre, post = "'r'", "'R'"
					}
					out = append(out, call("verifPreLock", lit(tag+ln)), call("verifPreLock", lit(r.fn)), call("verifLockObj", chr(pre), addrOf(c)), st, call("verifHeld", num("1")), call("verifLockObj", chr(post), addrOf(c)))
				default:
					// and a yield right after the release: the moment a waiter gets in
					out = append(out, call("verifPreLock", lit("@U:"+ln)), call("verifHeld", &ast.UnaryExpr{Op: token.SUB, X: num("1")}), st, call("verifLockObj", chr("'U'"), addrOf(c)), call("verifPreLock", lit(r.fn+":unlocked")))
				}
				continue
			}
		case *ast.DeferStmt:
			if name, c := lockCall(s.Call); c != nil && (name == "Unlock" || name == "RUnlock") {
				r.handled[c] = true
				r.sites++
				fl := &ast.FuncLit{Type: &ast.FuncType{Params: &ast.FieldList{}}, Body: &ast.BlockStmt{List: []ast.Stmt{
					call("verifPreLock", lit("@U:"+r.lockName(c))),
					call("verifHeld", &ast.UnaryExpr{Op: token.SUB, X: num("1")}), &ast.ExprStmt{X: c},
					call("verifLockObj", chr("'U'"), addrOf(c)),
					// the function is about to return to its caller with the lock released
					call("verifPreLock", lit(r.fn+":unlocked"))}}}
				out = append(out, &ast.DeferStmt{Call: &ast.CallExpr{Fun: fl}})
				continue
			}
		}
		out = append(out, st)
	}
	return out
}

func main() {
	dir := os.Args[1]
	files, _ := filepath.Glob(filepath.Join(dir, "*.go"))
	for _, path := range files {
		if strings.HasSuffix(path, "_test.go") {
			continue
		}
		f, err := parser.ParseFile(token.NewFileSet(), path, nil, 0)
		if err != nil {
			continue
		}
		ast.Inspect(f, func(n ast.Node) bool {
			ts, ok := n.(*ast.TypeSpec)
			if !ok {
				return true
			}
			st, ok := ts.Type.(*ast.StructType)
			if !ok {
				return true
			}
			m := map[string]string{}
			for _, fl := range st.Fields.List {
				for _, nm := range fl.Names {
					m[nm.Name] = typeName(fl.Type)
				}
			}
			structFields[ts.Name.Name] = m
			return true
		})
	}
	total := 0
	for _, path := range files {
		base := filepath.Base(path)
		if strings.HasSuffix(base, "_test.go") || strings.HasPrefix(base, "verif_") || strings.HasPrefix(base, "test_") || base == "embedded_nats_server.go" || base == "chaos_test_helpers.go" {
			continue
		}
		fset := token.NewFileSet()
		f, err := parser.ParseFile(fset, path, nil, parser.ParseComments)
		if err != nil {
			fmt.Fprintf(os.Stderr, "instr: %v\n", err)
			os.Exit(2)
		}
		r := &rewriter{handled: map[ast.Expr]bool{}, seenStmt: map[ast.Stmt]bool{}}
		for _, d := range f.Decls {
			fd, ok := d.(*ast.FuncDecl)
			if !ok || fd.Body == nil {
				continue
			}
			r.fn = fd.Name.Name
			r.vars = map[string]string{}
			if fd.Recv != nil {
				for _, fl := range fd.Recv.List {
					for _, nm := range fl.Names {
						r.vars[nm.Name] = typeName(fl.Type)
					}
				}
			}
			if fd.Type.Params != nil {
				for _, fl := range fd.Type.Params.List {
					for _, nm := range fl.Names {
						r.vars[nm.Name] = typeName(fl.Type)
					}
				}
			}
			// lock sites inside a function literal are named "<func>.func" (the goroutines and
			// deferred closures a function starts are different preemption targets than its body)
			base := fd.Name.Name
			var walk func(n ast.Node, depth int)
			walk = func(n ast.Node, depth int) {
				ast.Inspect(n, func(m ast.Node) bool {
					if m == nil || m == n {
						return true
					}
					if fl, ok := m.(*ast.FuncLit); ok {
						r.fn = base + ".func"
						fl.Body.List = r.stmts(fl.Body.List)
						walk(fl.Body, depth+1)
						return false
					}
					r.fn = base
					if depth > 0 {
						r.fn = base + ".func"
					}
					switch b := m.(type) {
					case *ast.BlockStmt:
						b.List = r.stmts(b.List)
					case *ast.CaseClause:
						b.Body = r.stmts(b.Body)
					case *ast.CommClause:
						b.Body = r.stmts(b.Body)
					}
					return true
				})
			}
			r.fn = base
			fd.Body.List = r.stmts(fd.Body.List)
			walk(fd.Body, 0)
		}
		// any lock call left that was not handled?
		bad := false
		ast.Inspect(f, func(n ast.Node) bool {
			if e, ok := n.(ast.Expr); ok {
				if name, c := lockCall(e); c != nil && !r.handled[c] {
					fmt.Fprintf(os.Stderr, "instr: %s: %s() in a form that is not instrumented (%s)\n", fset.Position(c.Pos()), name, base)
					bad = true
				}
			}
			return true
		})
		if bad {
			os.Exit(3)
		}
		if r.sites == 0 {
			continue
		}
		total += r.sites
		out, err := os.Create(path)
		if err != nil {
			fmt.Fprintln(os.Stderr, err)
			os.Exit(2)
		}
		if err := format.Node(out, fset, f); err != nil {
			fmt.Fprintf(os.Stderr, "instr: printing %s: %v\n", path, err)
			os.Exit(2)
		}
		out.Close()
	}
	fmt.Printf("instrumented %d lock/unlock sites\n", total)
}
