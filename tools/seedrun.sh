#!/bin/bash
# seedrun.sh <seeded-id> <prop> [<prop> ...] : run the quick check(s) against a scratch worktree of /repo HEAD
# with seeded/<id>/patch.diff applied (leaves /repo itself untouched, so background runs that read /repo are not disturbed)
ID=$1; shift
W=/tmp/seedrun-$ID
git -C /repo worktree remove --force $W 2>/dev/null; rm -rf $W /tmp/vb-$ID
git -C /repo worktree add -q --detach $W ${BASE:-HEAD} || exit 2
git -C $W apply "$(dirname "$(readlink -f "$0")")/../seeded/$ID/patch.diff" || { echo "PATCH DOES NOT APPLY"; git -C /repo worktree remove --force $W; exit 2; }
export VERIF_REPO=$W VERIF_BUILD_DIR=/tmp/vb-$ID VERIF_REPLAY_DIR=/tmp/vr-$ID VERIF_EVIDENCE_DIR=/tmp/ve-$ID
mkdir -p $VERIF_REPLAY_DIR $VERIF_EVIDENCE_DIR
cd "$(dirname "$(readlink -f "$0")")/.."
for P in "$@"; do
  ./vcheck run $P --tier ${TIER:-quick} > /tmp/seedrun-$ID-$P.out 2>&1; rc=$?
  echo "== $ID vs $P: exit $rc"; grep -E "^VIOLATION|signature:|KNOWN|TROUBLE|runs," /tmp/seedrun-$ID-$P.out | sort | uniq -c | sort -rn | head -${SHOW:-8}
done
git -C /repo worktree remove --force $W; rm -rf /tmp/vb-$ID /tmp/vr-$ID /tmp/ve-$ID
