#!/bin/bash
# seedbatch.sh [ids...] : run, for every seeded change (default: all), the quick check of the property
# it was written for (meta.json "property") against a scratch worktree with the change applied;
# one summary line per change in $OUT (default /tmp/seedbatch.txt). Obsolete changes are skipped.
OUT=${OUT:-/tmp/seedbatch.txt}
cd "$(dirname "$(readlink -f "$0")")/.."
IDS="$@"; [ -z "$IDS" ] && IDS=$(ls seeded)
for ID in $IDS; do
  P=$(python3 -c "import json;m=json.load(open('seeded/$ID/meta.json'));print('SKIP' if (m.get('obsolete') or m.get('obsolete_since') or m.get('superseded_by')) else m['property'])")
  [ "$P" = SKIP ] && { echo "$ID skipped (obsolete/superseded)" >> $OUT; continue; }
  R=$(tools/seedrun.sh $ID $P 2>&1)
  rc=$(echo "$R" | grep -o "exit [0-9]*" | head -1)
  sig=$(echo "$R" | grep "signature:" | head -2 | sed 's/.*signature: //' | tr '\n' ' ')
  echo "$ID $P $rc $sig $(echo "$R" | grep -c 'DOES NOT APPLY' | sed 's/^0$//;s/^1$/PATCH-DOES-NOT-APPLY/')" >> $OUT
done
echo BATCH-DONE >> $OUT
