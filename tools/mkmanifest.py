#!/usr/bin/env python3
"""Writes /verif/MANIFEST.json from vlib/props.py (single source of check configuration)."""
import json, os, subprocess, sys
VERIF = os.path.dirname(os.path.dirname(os.path.abspath(__file__)))
sys.path.insert(0, VERIF)
from vlib.props import PROPS, MANIFEST_TEXT, NOT_APPLICABLE

hooks = subprocess.check_output(["git", "-C", "/repo", "log", "--reverse", "--format=%h %s"], text=True).splitlines()
hook_commits = [l.split()[0] for l in hooks if " verif hooks:" in l]
checks = []
for pid in sorted(PROPS):
    cfg = PROPS[pid]
    t = MANIFEST_TEXT[pid]
    checks.append({
        "property_id": pid,
        "quick_cmd": "./vcheck run %s --tier quick" % pid,
        "thorough_cmd": "./vcheck run %s --tier thorough" % pid,
        "evidence_file": "/verif/evidence/%s.json" % pid,
        "replay_cmd_template": "./vcheck replay {path}",
        "engine": "detsim",
        "level_claimed": {"category": cfg.get("level", "exploration"), "text": t["level_text"], "design_ref": t["design_ref"]},
        "level_note": t["level_note"],
        "technique": t["technique"],
    })
m = {
    "version": 1,
    "setup_cmd": "./vcheck setup",
    "hooks": {
        "guard": "Go build tag 'verif'",
        "enable": "go1.26.8 test -c -tags verif -overlay .build/overlay/overlay.json -modfile .build/sim.go.mod (harness module /verif/sim, replace => an instrumented scratch copy of /repo made by tools/instr on every build)",
        "baseline_off_cmd": "cd /repo && go test -mod=mod -json -vet=off -count=1 -timeout 25m ./...",
        "source_commits": hook_commits,
        "add_only": True,
    },
    "engines": [
        {"name": "detsim", "path": "/verif/sim", "serves_properties": sorted(PROPS),
         "kind_free_text": "deterministic discrete-event simulation of the real leader package inside testing/synctest bubbles (fake clock), reference JetStream-KV store model with per-phase fault injection, seeded scheduler (GOMAXPROCS=1 workers; select poll order, same-instant timer order, context child order and math/rand/v2 global source replaced through a build-time -overlay of the toolchain sources), yields before every lock acquisition inserted into a scratch copy by tools/instr, Python orchestrator (vcheck) with ddmin minimisation and replay files"},
        {"name": "race-freerun", "path": "/verif/sim (free-run mode) + -race build", "serves_properties": ["C20"],
         "kind_free_text": "same generator, stub store, fake clock and fault injection, but no central scheduler: real goroutine interleavings under the Go race detector (runtime monitoring of seeded scenarios; inexact replay)"},
    ],
    "checks": checks,
    "not_applicable": NOT_APPLICABLE,
    "notes": "Known findings (genuine defects recorded, not repaired) are in /verif/known_findings.json; fixed defects are listed there as status=fixed with their 'fix:' commit. Regression plans of every defect found are in /verif/corpus/<property>/ and are re-run by every check. Seeded property-breaking changes used to test the checks are in /verif/seeded/.",
}
json.dump(m, open(os.path.join(VERIF, "MANIFEST.json"), "w"), indent=1)
print("MANIFEST.json: %d checks, %d not applicable, hook commits %s" % (len(checks), len(NOT_APPLICABLE), hook_commits))
