"""Orchestrator: seeded search over plans with worker processes, classification against
known findings, minimisation, replay files, evidence."""
import json, os, subprocess, sys, time, tempfile, shutil, re, hashlib, collections, signal

from . import build as B

VERIF = B.VERIF
# two cores are left to the orchestrator, the runtime's sysmon threads and the OS: a worker whose
# thread is descheduled for >10 ms gets a cooperative preemption request, which can reorder
# goroutines woken at the same instant
NWORK = int(os.environ.get("VERIF_WORKERS", str(max(1, (os.cpu_count() or 4) - 2))))

def worker_env():
    e = dict(os.environ)
    e["GOMAXPROCS"] = "1"
    e["GODEBUG"] = "asyncpreemptoff=1"
    e["GOTRACEBACK"] = "all"
    return e

class WorkerRun:
    def __init__(self, binary, job, tmpdir, idx, race=False):
        self.job = job
        self.idx = idx
        self.jobpath = os.path.join(tmpdir, "job%d.json" % idx)
        self.out = os.path.join(tmpdir, "out%d.jsonl" % idx)
        self.errpath = os.path.join(tmpdir, "err%d.txt" % idx)
        job["out"] = self.out
        with open(self.jobpath, "w") as f:
            json.dump(job, f)
        env = worker_env()
        env["VERIF_JOB"] = self.jobpath
        if race:
            env["GOMAXPROCS"] = os.environ.get("VERIF_RACE_GOMAXPROCS", "16")
            env.pop("GODEBUG", None)
            env["GORACE"] = "halt_on_error=0 history_size=5"
        self.err = open(self.errpath, "w")
        self.t0 = time.time()
        self.last_check = self.t0
        self.killed = False
        self.stall_s = job.get("stall_s") or 15
        # memory guard: 6 GiB of address space per worker is far above need (race builds need more)
        pre = "ulimit -v %d; exec " % (64 * 1024 * 1024 if race else 8 * 1024 * 1024)
        self.p = subprocess.Popen(["/bin/sh", "-c", pre + '"$0" "$@"', binary, "-test.run", "^TestWorker$", "-test.timeout", "0"],
                                  env=env, stdout=self.err, stderr=subprocess.STDOUT, cwd=tmpdir)

    def poll(self):
        """None while running; kills a stalled worker with SIGQUIT (stack dump)."""
        rc = self.p.poll()
        if rc is not None:
            return rc
        now = time.time()
        if now - self.last_check < 1.0:
            return None
        self.last_check = now
        try:
            m = os.stat(self.out + ".cur").st_mtime
            self.seen_cur = True
        except OSError:
            m = self.t0
            if getattr(self, "seen_cur", False):
                # the worker removes the file when its job is done: what follows is the test
                # binary's own exit (slow in a race-detector build with many reports), not a plan
                if not hasattr(self, "gone_at"):
                    self.gone_at = now
                m = now if now - self.gone_at < 300 else self.gone_at   # five minutes to exit
        limit = self.stall_s
        try:
            # a machine that is busy with other work starves the workers: be patient
            la = os.getloadavg()[0] / (os.cpu_count() or 1)
            if la > 1.5:
                limit *= 8
            elif la > 1.0:
                limit *= 3
        except OSError:
            pass
        if now - max(m, self.t0) > limit and not self.killed:
            self.killed = True
            try:
                self.p.send_signal(signal.SIGQUIT)
            except Exception:
                pass
        return None

    def finish(self):
        rc = self.p.wait()
        self.err.close()
        results = []
        try:
            for l in open(self.out):
                l = l.strip()
                if l:
                    try:
                        results.append(json.loads(l))
                    except Exception:
                        pass
        except FileNotFoundError:
            pass
        cur = None
        try:
            cur = json.load(open(self.out + ".cur"))
        except Exception:
            pass
        errtxt = open(self.errpath, errors="replace").read()
        if self.killed:
            errtxt = "WATCHDOG: no simulator progress (SIGQUIT sent by the orchestrator)\n" + errtxt
        return rc, results, cur, errtxt


LEADER = "github.com/ali-assar/NATS-Leader-Election/leader."

def _fn_of_line(ln):
    """'github.com/.../leader.(*kvElection).logWithContext(0x0?, {0x0, 0x0})' -> 'logWithContext'"""
    nm = ln[len(LEADER):]
    nm = re.sub(r"\((?:[^()]|\{[^}]*\})*\)\s*$", "", nm)   # trailing argument list
    return clean_fn(nm)

def classify_crash(rc, errtxt):
    """Returns (kind, sig, detail) for a worker that died. kind: 'panic' | 'deadlock' | 'trouble'"""
    if "WATCHDOG: no simulator progress" in errtxt:
        # library goroutines parked in mutex acquisition => deadlock
        frames = []
        for g in errtxt.split("\n\n"):
            if ("sync.(*Mutex).Lock" in g or "sync.(*RWMutex).Lock" in g or "sync.(*RWMutex).RLock" in g) and LEADER in g:
                names = [_fn_of_line(ln) for ln in g.split("\n") if ln.startswith(LEADER)][:3]
                frames.append("<".join(names))
        if frames:
            frames = sorted(set(frames))
            return "deadlock", "deadlock/" + "|".join(frames[:3]), "no progress with library goroutines waiting for a library mutex (a lock cycle, or a mutex held across a store operation that does not return: virtual time cannot advance past a goroutine that waits for a mutex): " + "; ".join(frames)
        return "trouble", "watchdog", errtxt[-3000:]
    m = re.search(r"^(panic: .*|fatal error: .*)$", errtxt, re.M)
    if m:
        head = m.group(1)
        tail = errtxt[m.end():]
        # the panicking goroutine is the first one printed
        first_g = tail.split("\n\n")[1] if tail.startswith("\n") or True else tail
        blocks = [b for b in tail.split("\n\n") if b.strip().startswith("goroutine ")]
        first = None
        if blocks:
            for ln in blocks[0].split("\n"):
                if ln.startswith(LEADER):
                    first = _fn_of_line(ln)
                    break
        if first is None:
            return "trouble", "harness-panic", head + "\n" + tail[:3000]
        what = "nil-deref" if "nil pointer" in head else ("stack-overflow" if "stack overflow" in head or "goroutine stack exceeds" in head else re.sub(r"[^a-zA-Z]+", "-", head[7:60]).strip("-"))
        return "panic", "panic/%s/%s" % (what, first), head
    return "trouble", "exit-%d" % rc, errtxt[-3000:]

def clean_fn(nm):
    nm = nm.replace("(*kvElection).", "").replace("(*disconnectHandler).", "dh.").replace("(*natsConnectionMonitor).", "mon.")
    nm = nm.replace("(*natsWatcherAdapter).", "wa.").replace("(*natsKeyValueAdapter).", "kva.")
    return nm.strip()


def run_batch(binary, jobs, race=False, stall_s=None):
    """jobs: list of job dicts (mode gen). Runs them over NWORK processes; a crashed worker is
    resumed after the crashing seed. Returns (results, crashes, troubles)."""
    tmp = tempfile.mkdtemp(prefix="vcheck-")
    results, crashes, troubles = [], [], []
    try:
        pending = list(enumerate(jobs))
        running = []
        nextidx = len(jobs)
        while pending or running:
            while pending and len(running) < NWORK:
                idx, job = pending.pop(0)
                if stall_s:
                    job["stall_s"] = stall_s
                running.append(WorkerRun(binary, job, tmp, idx, race))
            # wait for any
            done = None
            while done is None:
                for w in running:
                    if w.poll() is not None:
                        done = w
                        break
                if done is None:
                    time.sleep(0.02)
            running.remove(done)
            rc, res, cur, errtxt = done.finish()
            results.extend(res)
            if rc != 0:
                kind, sig, detail = classify_crash(rc, errtxt)
                job = done.job
                if kind == "trouble" and sig == "watchdog" and not job.get("_retried") and job.get("mode") == "gen":
                    # a worker that made no progress without any library goroutine waiting for a
                    # mutex: most likely starved by the machine; run the rest of its job once more,
                    # starting at the plan it was on (a plan that really hangs will stall again)
                    nj = dict(job)
                    nj["_retried"] = True
                    if cur is not None:
                        doneN = int(cur["seed"]) - int(job["seed_start"])
                        nj["seed_start"] = int(cur["seed"])
                        nj["count"] = max(1, int(job["count"]) - doneN)
                    if job.get("budget_ms"):
                        nj["budget_ms"] = max(2000, job["budget_ms"] - int((time.time() - done.t0) * 1000))
                    pending.append((nextidx, nj))
                    nextidx += 1
                    continue
                if kind == "trouble" or cur is None:
                    troubles.append({"sig": sig, "detail": detail, "job": {k: v for k, v in job.items() if k != "plans"}})
                    try:  # keep the whole output for diagnosis
                        os.makedirs(os.path.join(VERIF, ".build"), exist_ok=True)
                        with open(os.path.join(VERIF, ".build", "trouble-%d.log" % int(time.time())), "w") as f:
                            f.write("job: %s\ncurrent plan: %s\n\n%s" % (json.dumps({k: v for k, v in job.items() if k != "plans"}), json.dumps(cur), errtxt))
                    except Exception:
                        pass
                else:
                    crashes.append({"kind": kind, "sig": sig, "detail": detail, "plan": cur, "stderr_tail": errtxt[-6000:]})
                # resume after the crashing seed
                if job.get("mode") == "gen" and cur is not None and kind != "trouble":
                    doneN = int(cur["seed"]) - int(job["seed_start"]) + 1
                    rest = int(job["count"]) - doneN
                    if rest > 0:
                        nj = dict(job)
                        nj["seed_start"] = int(cur["seed"]) + 1
                        nj["count"] = rest
                        if job.get("budget_ms"):
                            spent = int((time.time() - done.t0) * 1000)
                            nj["budget_ms"] = job["budget_ms"] - spent
                            if nj["budget_ms"] < 50:
                                continue
                        pending.append((nextidx, nj))
                        nextidx += 1
                elif job.get("mode") == "plans" and cur is not None and kind != "trouble":
                    # continue with the plans after the crashing one
                    plans = job["plans"]
                    k = None
                    for i, p in enumerate(plans):
                        if json.dumps(p, sort_keys=True) == json.dumps(cur, sort_keys=True):
                            k = i
                            break
                    if k is not None and k + 1 < len(plans):
                        nj = dict(job)
                        nj["plans"] = plans[k + 1:]
                        pending.append((nextidx, nj))
                        nextidx += 1
    finally:
        shutil.rmtree(tmp, ignore_errors=True)
    return results, crashes, troubles


def run_one(binary, plan, judge=None, trace=False, race=False):
    """Runs one plan in a fresh process. Returns dict(result=..., crash=..., trouble=...)."""
    job = {"mode": "plans", "plans": [plan], "trace": trace}
    if judge:
        job["judge"] = judge
    res, crashes, troubles = run_batch(binary, [job], race=race)
    return {"result": res[0] if res else None, "crash": crashes[0] if crashes else None, "trouble": troubles[0] if troubles else None}


def run_many_single(binary, plans, judge):
    """Each plan in its own process (crash-safe), in parallel. Returns list aligned with plans of
    sets of (prop, sig)."""
    jobs = [{"mode": "plans", "plans": [p], "judge": judge} for p in plans]
    tmp = tempfile.mkdtemp(prefix="vmin-")
    out = [None] * len(plans)
    try:
        idx = 0
        running = []
        while idx < len(jobs) or running:
            while idx < len(jobs) and len(running) < NWORK:
                running.append((idx, WorkerRun(binary, jobs[idx], tmp, idx)))
                idx += 1
            for item in list(running):
                i, w = item
                if w.poll() is not None:
                    running.remove(item)
                    rc, res, cur, errtxt = w.finish()
                    sigs = set()
                    hashv = None
                    for r in res:
                        hashv = r.get("log_hash")
                        for v in r.get("viol", []):
                            sigs.add((v["prop"], v["sig"]))
                    if rc != 0:
                        kind, sig, detail = classify_crash(rc, errtxt)
                        sigs.add(("CRASH", sig))
                    out[i] = (sigs, hashv, res[0] if res else None)
            time.sleep(0.005)
    finally:
        shutil.rmtree(tmp, ignore_errors=True)
    return out
