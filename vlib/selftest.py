"""Determinism self-test: the same seeds in several fresh processes must give identical
event-log hashes (GOMAXPROCS=1 is the production setting of the workers)."""
import sys, os, json, time
from . import build as B, orch

FAMILIES = None

def main(nseeds=40, procs=3):
    from .props import PROPS
    binary = B.build()
    fams = sorted({f for c in PROPS.values() for f, _ in c.get("families", [])} - {"c20"})  # c20 is free-run by design
    jobs = []
    for fam in fams:
        for k in range(procs):
            jobs.append({"mode": "gen", "family": fam, "seed_start": 777000, "count": nseeds, "tag": (fam, k)})
    res_by = {}
    # run each job separately so results can be attributed
    import tempfile, shutil
    tmp = tempfile.mkdtemp(prefix="vself-")
    try:
        runs = []
        pend = list(enumerate(jobs))
        live = []
        while pend or live:
            while pend and len(live) < orch.NWORK:
                i, j = pend.pop(0)
                tag = j.pop("tag")
                live.append((tag, orch.WorkerRun(binary, j, tmp, i)))
            for it in list(live):
                tag, w = it
                if w.poll() is not None:
                    live.remove(it)
                    rc, res, cur, err = w.finish()
                    res_by[tag] = (rc, [(r["seed"], r["log_hash"]) for r in res])
            time.sleep(0.01)
    finally:
        shutil.rmtree(tmp, ignore_errors=True)
    bad = 0
    for fam in fams:
        fam_bad = 0
        ref = res_by[(fam, 0)][1]
        for k in range(1, procs):
            other = res_by[(fam, k)][1]
            n = min(len(ref), len(other))
            diffs = [ref[i][0] for i in range(n) if ref[i] != other[i]]
            if diffs or len(ref) != len(other):
                bad += 1
                fam_bad += 1
                print("NONDETERMINISM family=%s process %d: %d of %d seeds differ (e.g. %s); lengths %d/%d" % (fam, k, len(diffs), n, diffs[:5], len(ref), len(other)))
        print("family %-12s %d seeds x %d processes: %s" % (fam, len(ref), procs, "identical" if not fam_bad else "see above"))
    if bad:
        print("SELFTEST FAILED")
        sys.exit(2)
    print("SELFTEST OK")
