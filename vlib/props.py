"""Per-property check configuration: plan families, oracle, budgets."""

COMPONENTS = {
    "real_code": ["leader/*.go non-test code (election, heartbeat, watcher, fencing, connection monitor and grace handler, retry, error classification, validation, status, nats.KeyValue adapters)",
                  "github.com/google/uuid (seeded through uuid.SetRand)", "encoding/json", "context", "Go runtime timers on the synctest fake clock"],
    "stubbed": ["JetStream server and nats.go client below the nats.KeyValue / nats.KeyWatcher interfaces (reference store model, /verif/sim/store.go)",
                "TCP connection (disconnect/reconnect/closed notifications are injected through the handlers the monitor registers on an unconnected nats.Conn)",
                "process boundary (crash = permanent partition of the election object + abandonment)"],
}

PROPS = {
    "C01": {"families": [("mixed", 3), ("pause", 2), ("faultfree", 1), ("c05ack", 1), ("ctxcancel", 1), ("sameid", 1)], "judge": ["C01"], "quick_s": 20, "thorough_s": 600},
    "C02": {"families": [("faultfree", 2), ("c07rounds", 1), ("c02stop", 1), ("ctxcancel", 1), ("c02restart", 1), ("ctxrestart", 1)], "judge": ["C02"], "quick_s": 20, "thorough_s": 600},
    "C03": {"families": [("c03", 3), ("mixed", 1), ("ctxcancel", 1), ("c13", 2)], "crash_is_violation": True, "judge": ["C03"], "quick_s": 20, "thorough_s": 600, "level": "fault_enumeration"},
    "C04": {"families": [("c04", 1), ("ctxcancel", 1), ("ctxrestart", 1)], "crash_is_violation": True, "judge": ["C04"], "quick_s": 20, "thorough_s": 600},
    "C05": {"families": [("mixed", 2), ("pause", 2), ("c05ack", 2), ("c08", 1), ("faultfree", 1), ("sameid", 1), ("c05lock", 1)], "judge": ["C05"], "quick_s": 20, "thorough_s": 600},
    "C06": {"families": [("c06", 2), ("ctxcancel", 1), ("ctxrestart", 1), ("stoprestart", 1), ("ctxfollower", 1)], "crash_is_violation": True, "judge": ["C06"], "quick_s": 20, "thorough_s": 600},
    "C07": {"families": [("faultfree", 3), ("c07rounds", 3), ("c07stale", 2), ("c02stop", 1), ("c07restart", 1)], "crash_is_violation": True, "judge": ["C07"], "quick_s": 20, "thorough_s": 600},
    "C08": {"families": [("c08", 2), ("mixed", 1), ("faultfree", 1), ("ctxcancel", 1), ("ctxrestart", 1), ("stoprestart", 1), ("c09stop", 1)], "crash_is_violation": True, "judge": ["C08"], "quick_s": 20, "thorough_s": 600},
    "C09": {"families": [("c09stop", 3), ("mixed", 1), ("faultfree", 1), ("c11", 1), ("c09probe", 1)], "level": "fault_enumeration", "judge": ["C09"], "quick_s": 20, "thorough_s": 600, "crash_is_violation": True},
    "C10": {"families": [("c10", 2), ("mixed", 1), ("pause", 1), ("sameid", 1)], "crash_is_violation": True, "judge": ["C10"], "quick_s": 20, "thorough_s": 600},
    "C11": {"families": [("c11", 2), ("c11lock", 1), ("c11reacq", 1)], "judge": ["C11"], "quick_s": 20, "thorough_s": 600, "crash_is_violation": True},
    "C12": {"families": [("c12", 1)], "crash_is_violation": True, "judge": ["C12"], "quick_s": 20, "thorough_s": 600},
    "C13": {"families": [("c13", 1)], "judge": ["C13"], "quick_s": 20, "thorough_s": 600, "crash_is_violation": True},
    "C14": {"families": [("c14sim", 1)], "judge": ["C14"], "quick_s": 12, "thorough_s": 300, "post": "c14_differential"},
    "C17": {"families": [("c17lib", 1), ("faultfree", 1), ("mixed", 1), ("c10", 1)], "judge": ["C17"], "quick_s": 20, "thorough_s": 600},
    "C18": {"families": [("mixed", 2), ("faultfree", 2), ("c05ack", 2), ("c02stop", 2), ("c09stop", 2), ("stoprestart", 1), ("ctxcancel", 1), ("ctxfollower", 2), ("staleterm", 1), ("c11", 1), ("c11reacq", 1)], "crash_is_violation": True, "judge": ["C18"], "quick_s": 20, "thorough_s": 600},
    "C19": {"families": [("c08", 2), ("mixed", 1), ("faultfree", 1), ("ctxcancel", 1), ("ctxrestart", 1), ("stoprestart", 1)], "crash_is_violation": True, "judge": ["C19"], "quick_s": 20, "thorough_s": 600},
}


# C20: free-run mode under the race detector (custom command)
PROPS["C20"] = {"custom": "c20_race", "families": [("c20", 1)], "judge": ["C20"], "quick_s": 40, "thorough_s": 900, "level": "other"}

NOT_APPLICABLE = [
    {"property_id": "C15", "reason": "pure function of one error value (IsPermanentError/IsTransientError): no schedule, clock, fault or history in it, so deterministic simulation has nothing to decide; its consequence (a deposed leader must not keep retrying on the real client's conflict errors) is exercised by C03/C13, which run the heartbeat against the real nats.go error values"},
    {"property_id": "C16", "reason": "pure function of the configuration struct evaluated before anything is started (validateConfig): input-quantified, no concurrency, time, I/O or multi-party behaviour; every simulated plan draws its configuration from the valid lattice and fails loudly if NewElection rejects it, but that samples acceptance only and is not claimed"},
]

_common_note = ("trusted base: the reference store model (sim/store.go; its agreement with a real nats-server/nats.go is sampled by C14's differential half), the synctest fake clock, "
                "the toolchain overlays that make select/timer/context-child order and math/rand/v2 seeded, the stubbed layers below nats.KeyValue; interleavings finer than simulator points "
                "(store-op phases, watch deliveries, API calls, notifications, timers, verifYield sites, a yield before every lock acquisition and after every release; inside critical sections and in front of atomic operations only in the plans of family c11lock) are not explored; a clean batch is evidence over the plans run, not proof")

def _t(level_text, technique, design_ref, note=_common_note):
    return {"level_text": level_text, "technique": technique, "design_ref": design_ref, "level_note": note}

MANIFEST_TEXT = {
    "C01": _t("seeded search over plans (2-5 instances, 1-2 groups, lifecycle actions, all store fault classes, yields); history check of every successful mutation in the complete store log against the four legitimate kinds", "deterministic simulation + history check of the store mutation log", "DESIGN.md 6/C01"),
    "C02": _t("seeded search over fault-free plans with every operation below H/2 (heartbeat intervals 50 ms - 10 s, optional Metrics/Logger left nil in a sixth of the plans, Start issued while the previous term's DeleteKey delete is in flight); invariant at every leadership-flag change (observed inside the library's critical section) and coverage of every term by a live record with the claimant's id and token", "deterministic simulation + invariant at every flag change + term/record timeline check", "DESIGN.md 6/C02"),
    "C03": _t("fault position (heartbeat attempt 0-8) x fault kind (10 kinds) x H class enumerated by the generator with random latencies per cell, plus mixed-fault exploration; both clauses judged on recorded attempt completions, the numeric bounds only where their antecedent holds", "deterministic simulation with enumerated fault position/kind + history check of heartbeat attempts", "DESIGN.md 6/C03"),
    "C04": _t("seeded search: validation calls from client goroutines racing with takeover, expiry, deletion and outsider writes of 35 payload shapes, faults on the read, context deadlines; every 'true' must be backed by a record version in the call interval, every 'false' of ValidateTokenOrDemote by a demotion", "deterministic simulation + interval check against the record timeline", "DESIGN.md 6/C04"),
    "C05": _t("seeded search over multi-term histories; every acquisition's token checked for freshness over the whole bucket history, every refresh for identity, OnPromote/Token()/Status() against the record at promotion and at quiescent points", "deterministic simulation + history check of record versions", "DESIGN.md 6/C05"),
    "C06": _t("seeded search: leader removed six ways at an arbitrary step, watch events dropped/held (including all), transient Watch/Get/Create failures; every vacancy with a healthy candidate bounded by 500ms+100ms+latencies, and a leader must exist after a fault-free tail", "deterministic simulation + bounded-liveness check over vacancy intervals", "DESIGN.md 6/C06"),
    "C07": _t("seeded search over fault-free plans with adversarial-in-time watch deliveries and concurrent acquisition rounds; no falling edge before the instance's own stop, record continuously the term's", "deterministic simulation + term stability check", "DESIGN.md 6/C07"),
    "C08": _t("seeded search incl. a family with coinciding demotion causes (aligned tickers, constant latencies) and preemption before every lock acquisition; per-instance state machine over claim edges and callback entries", "deterministic simulation + alternation state machine over the callback log", "DESIGN.md 6/C08"),
    "C09": _t("stop points enumerated by (operation number 1-16 of the stopping instance, phase: before issue / between issue and application / between application and response / after return, 7 stop variants, optional second stop or start) with a random remainder of the schedule, plus stops at random times in the mixed families and worker-crash/deadlock detection; after the return of a successful stop: no claim, no OnPromote, no new store operation, no library goroutine left, time bounds, DeleteKey effect", "deterministic simulation + post-stop silence check + goroutine dump + watchdog", "DESIGN.md 6/C09"),
    "C10": _t("safety on every replacement under the full fault set; promptness/stability in a fault-free family (latency and watch delay <= H/10) over sampled priority/flag assignments and start orders", "deterministic simulation + mutation-log check + bounded-liveness check", "DESIGN.md 6/C10"),
    "C11": _t("seeded search over notification sequences on a timing lattice around the grace period, with partitions, ownership changes and stops, goroutines parked inside critical sections in front of atomic operations (family c11lock) and terms that end and restart inside a reconnect verification (family c11reacq); (a) never before G since the latest notification, (b) exactly at expiry, (c) reconnect verification outcome vs. record, plus deadlock/panic detection", "deterministic simulation + timing checks on the fake clock + watchdog", "DESIGN.md 6/C11"),
    "C12": _t("seeded search over scripted health sequences (streaks m-1, m, m+1 around term boundaries, slow results, probes that ignore their context and answer in a later term, slow OnDemote, refreshes answered later than the next tick), thresholds 1-6 and default; reference counter run over the health-call log", "deterministic simulation + reference counter", "DESIGN.md 6/C12"),
    "C13": _t("seeded search: outsider writes of 35 payload shapes (empty, truncated, wrong types, 1 MiB, 12000-deep, foreign well-formed) and deletes at arbitrary steps against followers, leaders and takeover candidates; crash/deadlock/recursion/operation-storm detection, promotion only on an own successful write, tampered leader demoted within the C03 bound", "deterministic simulation + crash/recursion detectors + history checks", "DESIGN.md 6/C13"),
    "C14": _t("(a) simulated: the library's real adapter over scripted nats.KeyWatcher/KeyValue with generated consumer patterns (Updates() once / every iteration / several goroutines), producer timing and Stop; (b) NOT simulation, reported separately: seeded operation sequences through the real adapter against a real embedded nats-server compared step by step with the reference store", "deterministic simulation of the adapter + differential model-conformance sampling", "DESIGN.md 6/C14"),
    "C17": _t("(i) RetryWithBackoff and (ii) CircuitBreaker under the fake clock with generated outcome scripts, cancellation times and call times around the cooldown edge, gaps compared exactly with the formula evaluated on the jitter draw the harness supplied; (iii) every acquisition round in election plans; the pure CalculateBackoff clause is input-generated, not simulation, and reported separately", "deterministic simulation with supplied jitter draws + exact gap check", "DESIGN.md 6/C17"),
    "C18": _t("rides on mixed and fault-free plans: Status() sampled at every quiescent point (after synctest.Wait) and the metrics stream checked inside the library's critical sections", "deterministic simulation + sampling at quiescent points", "DESIGN.md 6/C18"),
    "C19": _t("seeded search with OnPromote callbacks that block on the context; for every term the moment Done() fires is compared with the term's falling edge", "deterministic simulation + per-term context watcher", "DESIGN.md 6/C19"),
    "C20": _t("runtime monitoring, not deterministic simulation: the same generator, stub store, fake clock and fault injection, but goroutines run freely (GOMAXPROCS=16) under the Go race detector with observers off; reports normalised to the racing field/function pair", "race detector over seeded free-run scenarios", "DESIGN.md 6/C20",
               "trusted base: the Go race detector (happens-before based, no false positives; misses races whose two accesses never both execute in a run); replay is the plan plus the race report and reproduces with a rate, not exactly; harness-side races are filtered by frame"),
}
