"""Per-property check configuration: plan families, oracle, budgets."""

COMPONENTS = {
    "real_code": ["leader/*.go non-test code (election, heartbeat, watcher, fencing, connection monitor and grace handler, retry, error classification, validation, status, nats.KeyValue adapters)",
                  "github.com/google/uuid (seeded through uuid.SetRand)", "encoding/json", "context", "Go runtime timers on the synctest fake clock"],
    "stubbed": ["JetStream server and nats.go client below the nats.KeyValue / nats.KeyWatcher interfaces (reference store model, /verif/sim/store.go)",
                "TCP connection (disconnect/reconnect/closed notifications are injected through the handlers the monitor registers on an unconnected nats.Conn)",
                "process boundary (crash = permanent partition of the election object + abandonment)"],
}

PROPS = {
    "C01": {"families": [("mixed", 3), ("faultfree", 1)], "judge": ["C01"], "quick_s": 10, "thorough_s": 600},
    "C02": {"families": [("faultfree", 1)], "judge": ["C02"], "quick_s": 10, "thorough_s": 600},
    "C03": {"families": [("c03", 3), ("mixed", 1)], "judge": ["C03"], "quick_s": 10, "thorough_s": 600, "level": "fault_enumeration"},
    "C04": {"families": [("c04", 1)], "judge": ["C04"], "quick_s": 10, "thorough_s": 600},
    "C05": {"families": [("mixed", 1), ("faultfree", 1)], "judge": ["C05"], "quick_s": 10, "thorough_s": 600},
    "C06": {"families": [("c06", 1)], "judge": ["C06"], "quick_s": 10, "thorough_s": 600},
    "C07": {"families": [("faultfree", 1)], "judge": ["C07"], "quick_s": 10, "thorough_s": 600},
    "C08": {"families": [("mixed", 1), ("faultfree", 1)], "judge": ["C08"], "quick_s": 10, "thorough_s": 600},
    "C09": {"families": [("mixed", 1), ("faultfree", 1)], "judge": ["C09"], "quick_s": 10, "thorough_s": 600, "crash_is_violation": True},
    "C10": {"families": [("c10", 2), ("mixed", 1)], "judge": ["C10"], "quick_s": 10, "thorough_s": 600},
    "C11": {"families": [("c11", 1)], "judge": ["C11"], "quick_s": 10, "thorough_s": 600, "crash_is_violation": True},
    "C12": {"families": [("c12", 1)], "judge": ["C12"], "quick_s": 10, "thorough_s": 600},
    "C13": {"families": [("c13", 1)], "judge": ["C13"], "quick_s": 10, "thorough_s": 600, "crash_is_violation": True},
    "C14": {"families": [("c14sim", 1)], "judge": ["C14"], "quick_s": 6, "thorough_s": 300, "post": "c14_differential"},
    "C17": {"families": [("c17lib", 1), ("faultfree", 1), ("mixed", 1)], "judge": ["C17"], "quick_s": 10, "thorough_s": 600},
    "C18": {"families": [("mixed", 1), ("faultfree", 1)], "judge": ["C18"], "quick_s": 10, "thorough_s": 600},
    "C19": {"families": [("mixed", 1), ("faultfree", 1)], "judge": ["C19"], "quick_s": 10, "thorough_s": 600},
}
