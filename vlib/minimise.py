"""Delta debugging over a Plan while the same violation class (property, signature) persists."""
import copy, json, time
from . import orch

def _variants_drop(plan, key):
    """Candidates that drop chunks of plan[key] (ddmin style, coarse to fine)."""
    items = plan.get(key) or []
    n = len(items)
    out = []
    if n == 0:
        return out
    chunk = max(1, n // 2)
    while chunk >= 1:
        for i in range(0, n, chunk):
            p = copy.deepcopy(plan)
            p[key] = items[:i] + items[i + chunk:]
            out.append(p)
        if chunk == 1:
            break
        chunk //= 2
    return out

def _drop_instance(plan, idx):
    p = copy.deepcopy(plan)
    if len(p.get("insts") or []) <= 1:
        return None
    del p["insts"][idx]
    acts = []
    for a in p.get("actions", []):
        if a.get("kind") in ("out_put", "out_delete", "expire_now"):
            acts.append(a)
            continue
        if a["inst"] == idx:
            continue
        if a["inst"] > idx:
            a["inst"] -= 1
        acts.append(a)
    p["actions"] = acts
    fs = []
    for f in p.get("faults", []) or []:
        if f["inst"] == idx:
            continue
        if f["inst"] > idx:
            f["inst"] -= 1
        fs.append(f)
    p["faults"] = fs
    return p

def _simplify(plan):
    out = []
    if not plan.get("insts") or not plan.get("store"):
        return out  # library-level scenarios (c17lib, c14sim) are identified by their seed only
    # no yields / stalls
    if plan["sched"].get("yield_prob", 0) > 0:
        p = copy.deepcopy(plan); p["sched"]["yield_prob"] = 0; p["sched"]["stall_max"] = 0; out.append(p)
    if plan["sched"].get("stall_max", 0) > 0:
        p = copy.deepcopy(plan); p["sched"]["stall_max"] = 0; out.append(p)
    # minimal latencies
    st = plan["store"]
    for k in ("req", "resp", "watch_delay"):
        if st[k][1] > st[k][0]:
            p = copy.deepcopy(plan); p["store"][k][1] = p["store"][k][0]; out.append(p)
            p = copy.deepcopy(plan); p["store"][k][1] = (st[k][0] + st[k][1]) // 2; out.append(p)
    # shorter run
    if plan.get("until", 0) > 0:
        for frac in (0.5, 0.75, 0.9):
            p = copy.deepcopy(plan)
            p["until"] = int(plan["until"] * frac)
            p["actions"] = [a for a in p.get("actions", []) if a.get("op_n") or a.get("at", 0) <= p["until"]]
            out.append(p)
    if plan.get("tail", 0) > 0:
        p = copy.deepcopy(plan); p["tail"] = 0; out.append(p)
    # callbacks plain
    for i, c in enumerate(plan["insts"]):
        if c.get("promote_mode") not in (None, "", "return") or c.get("demote_dur") or c.get("v") or c.get("monitor"):
            p = copy.deepcopy(plan)
            for k in ("demote_dur", "promote_dur", "v"):
                p["insts"][i].pop(k, None)
            p["insts"][i]["promote_mode"] = "return"
            out.append(p)
    return out

def minimise(binary, plan, prop, sig, judge, budget_s=60, max_runs=400, log=None):
    """Returns (min_plan, runs_used)."""
    t0 = time.time()
    runs = 0
    target = (prop, sig)
    cur = copy.deepcopy(plan)

    def holds(cands):
        nonlocal runs
        cands = [c for c in cands if c is not None]
        if not cands:
            return None
        res = orch.run_many_single(binary, cands, judge)
        runs += len(cands)
        for c, r in zip(cands, res):
            if r is None:
                continue
            sigs = r[0]
            if any(s == sig and pp in (prop, "CRASH") for (pp, s) in sigs):
                return c
        return None

    progress = True
    while progress and time.time() - t0 < budget_s and runs < max_runs:
        progress = False
        for gen in (
            lambda p: _variants_drop(p, "actions"),
            lambda p: _variants_drop(p, "faults"),
            lambda p: [_drop_instance(p, i) for i in range(len(p.get("insts") or []) - 1, -1, -1)],
            _simplify,
        ):
            while time.time() - t0 < budget_s and runs < max_runs:
                cands = gen(cur)
                # process in chunks of NWORK so that an early success saves work
                found = None
                for i in range(0, len(cands), orch.NWORK):
                    found = holds(cands[i:i + orch.NWORK])
                    if found is not None or time.time() - t0 > budget_s or runs >= max_runs:
                        break
                if found is None:
                    break
                cur = found
                progress = True
    return cur, runs
