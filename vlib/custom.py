"""Extra (non-simulation) parts of checks, reported separately in evidence."""
import json, os, subprocess, tempfile, shutil, time
from . import orch

def c14_differential(binary, tier, seed):
    """Real embedded nats-server + real adapter vs the reference store (real time, loopback)."""
    n = 24 if tier == "quick" else 400
    tmp = tempfile.mkdtemp(prefix="vc14-")
    results = []
    info = {"kind": "model-conformance sampling against a real embedded nats-server (not a simulation)", "seeds": n, "ops_per_seed": 14}
    try:
        t0 = time.time()
        batches = [list(range(seed * 100000 + i, seed * 100000 + n, 4)) for i in range(4)]
        procs = []
        for i, b in enumerate(batches):
            jp = os.path.join(tmp, "job%d.json" % i)
            out = os.path.join(tmp, "out%d.jsonl" % i)
            json.dump({"seeds": b, "out": out, "ops": 14}, open(jp, "w"))
            env = dict(os.environ); env["VERIF_C14DIFF_JOB"] = jp
            procs.append((subprocess.Popen([binary, "-test.run", "^TestC14Diff$", "-test.timeout", "1200s"], env=env, stdout=subprocess.PIPE, stderr=subprocess.STDOUT, text=True), out))
        checks = 0
        trouble = None
        for p, out in procs:
            o, _ = p.communicate()
            if p.returncode != 0:
                trouble = o[-3000:]
                continue
            for l in open(out):
                r = json.loads(l)
                checks += r.get("checks", 0)
                results.append({"seed": r["seed"], "family": "c14diff", "log_hash": "-", "viol": r.get("viol") or [],
                                "stats": {"faults": {}, "probes": {"c14diff_ops": len(r.get("ops", []))}, "terms": 1, "interleave_hash": "diff-%d" % r["seed"]},
                                "judged": {"C14": r.get("checks", 0)},
                                "plan": {"seed": r["seed"], "family": "c14diff", "note": r.get("ops")} if r.get("viol") else None})
        info["operations_compared"] = checks
        info["wall_s"] = round(time.time() - t0, 1)
        if trouble:
            info["trouble"] = trouble
    finally:
        shutil.rmtree(tmp, ignore_errors=True)
    return results, info
