"""Extra (non-simulation) parts of checks, reported separately in evidence."""
import json, os, subprocess, tempfile, shutil, time
from . import orch

def c14_differential(binary, tier, seed):
    """Real embedded nats-server + real adapter vs the reference store (real time, loopback)."""
    n = 24 if tier == "quick" else 400
    tmp = tempfile.mkdtemp(prefix="vc14-")
    results = []
    info = {"kind": "model-conformance sampling against a real embedded nats-server (not a simulation)", "seeds": n, "ops_per_seed": 14}
    try:
        t0 = time.time()
        batches = [list(range(seed * 100000 + i, seed * 100000 + n, 4)) for i in range(4)]
        procs = []
        for i, b in enumerate(batches):
            jp = os.path.join(tmp, "job%d.json" % i)
            out = os.path.join(tmp, "out%d.jsonl" % i)
            json.dump({"seeds": b, "out": out, "ops": 14}, open(jp, "w"))
            env = dict(os.environ); env["VERIF_C14DIFF_JOB"] = jp
            procs.append((subprocess.Popen([binary, "-test.run", "^TestC14Diff$", "-test.timeout", "1200s"], env=env, stdout=subprocess.PIPE, stderr=subprocess.STDOUT, text=True), out))
        checks = 0
        trouble = None
        for i, (p, out) in enumerate(procs):
            o, _ = p.communicate()
            if p.returncode != 0:
                # real time, real sockets: a starved machine makes the embedded server miss its own
                # deadlines. Run the batch once more, alone, before calling it trouble.
                try:
                    os.remove(out)
                except OSError:
                    pass
                env = dict(os.environ); env["VERIF_C14DIFF_JOB"] = os.path.join(tmp, "job%d.json" % i)
                p2 = subprocess.run([binary, "-test.run", "^TestC14Diff$", "-test.timeout", "1200s"], env=env, stdout=subprocess.PIPE, stderr=subprocess.STDOUT, text=True)
                if p2.returncode != 0:
                    trouble = (o[-1500:] + "\n--- retry ---\n" + p2.stdout[-1500:])
                    continue
            for l in open(out):
                r = json.loads(l)
                checks += r.get("checks", 0)
                if r.get("coalesced"):
                    info["watch_versions_superseded_before_delivery"] = info.get("watch_versions_superseded_before_delivery", 0) + r["coalesced"]
                if r.get("timing_unsafe"):
                    info["sequences_cut_short_process_held_up_near_an_expiry"] = info.get("sequences_cut_short_process_held_up_near_an_expiry", 0) + 1
                results.append({"seed": r["seed"], "family": "c14diff", "log_hash": "-", "viol": r.get("viol") or [],
                                "stats": {"faults": {}, "probes": {"c14diff_ops": len(r.get("ops", []))}, "terms": 1, "interleave_hash": "diff-%d" % r["seed"]},
                                "judged": {"C14": r.get("checks", 0)},
                                "plan": {"seed": r["seed"], "family": "c14diff", "note": r.get("ops")} if r.get("viol") else None})
        info["operations_compared"] = checks
        info["wall_s"] = round(time.time() - t0, 1)
        if trouble:
            info["trouble"] = trouble
    finally:
        shutil.rmtree(tmp, ignore_errors=True)
    return results, info


def c14_diff_seed(binary, seed, ops=14):
    """Re-runs the differential for one seed; returns (list of violation dicts, ops) or None on trouble."""
    tmp = tempfile.mkdtemp(prefix="vc14r-")
    try:
        jp = os.path.join(tmp, "job.json"); out = os.path.join(tmp, "out.jsonl")
        json.dump({"seeds": [seed], "out": out, "ops": ops}, open(jp, "w"))
        env = dict(os.environ); env["VERIF_C14DIFF_JOB"] = jp
        p = subprocess.run([binary, "-test.run", "^TestC14Diff$", "-test.timeout", "600s"], env=env, stdout=subprocess.PIPE, stderr=subprocess.STDOUT, text=True)
        if p.returncode != 0:
            return None
        for l in open(out):
            r = json.loads(l)
            return (r.get("viol") or [], r.get("ops"))
        return None
    finally:
        shutil.rmtree(tmp, ignore_errors=True)


# ---------------------------------------------------------------------------------------------
# C20: free-run mode under the race detector (runtime monitoring of seeded scenarios)
# ---------------------------------------------------------------------------------------------
import re, sys, collections, hashlib

LEADER = "github.com/ali-assar/NATS-Leader-Election/leader."

def _parse_races(errtxt):
    """Yields (seed, sig, kind, report) for every DATA RACE block; kind 'library' | 'harness'."""
    seed = None
    out = []
    pos = 0
    # walk the text in order so that reports are attributed to the preceding VERIF-PLAN marker
    for m in re.finditer(r"VERIF-PLAN (\d+) (\S+)|={18}\nWARNING: DATA RACE\n(.*?)\n={18}", errtxt, re.S):
        if m.group(1):
            seed = int(m.group(1))
            continue
        rep = m.group(3)
        parts = rep.split("\n\n")
        tops = []
        for p in parts[:2]:
            frames = re.findall(r"^  (\S+)\(\)\n      (\S+):(\d+)", p, re.M)
            top = None
            for fn, path, line in frames:
                # standard-library frames (first path element without a dot, e.g. math/rand/v2,
                # sync, runtime) are passed over: the racing accesses belong to whoever called them
                first = fn.split("/")[0] if "/" in fn else fn.split(".")[0]
                if "." not in first and first != "verifsim":
                    continue
                top = (fn, path, int(line))
                break
            tops.append(top)
        if len(tops) < 2 or None in tops:
            out.append((seed, "unparsed", "harness", rep))
            continue
        if not all(t[0].startswith(LEADER) for t in tops):
            who = "|".join(sorted(t[0].split("/")[-1] for t in tops))
            out.append((seed, "harness:" + who, "harness", rep))
            continue
        fields = []
        for fn, path, line in tops:
            try:
                src = open(path).read().split("\n")[line - 1]
            except Exception:
                src = ""
            fields.append(set(re.findall(r"\.([a-z]\w*)\b", src)) - {"mu", "election"})
        common = fields[0] & fields[1]
        common = {f for f in common if f not in ("isLeader", "cfg", "getLogger", "logWithContext")} or common
        fns = sorted(clean(t[0]) for t in tops)
        if common:
            sig = "race/field:" + "+".join(sorted(common))
        else:
            sig = "race/fn:" + "|".join(fns)
        out.append((seed, sig, "library", "functions: %s\n%s" % (" <-> ".join(fns), rep)))
    return out

def clean(fn):
    fn = fn[len(LEADER):] if fn.startswith(LEADER) else fn
    return fn.replace("(*kvElection).", "").replace("(*disconnectHandler).", "dh.").replace("(*natsConnectionMonitor).", "mon.")

def _run_race(binary, jobs, workers, gomaxprocs):
    from . import orch
    tmp = tempfile.mkdtemp(prefix="vrace-")
    results, reports, trouble = [], [], []
    try:
        pend = list(enumerate(jobs)); live = []
        while pend or live:
            while pend and len(live) < workers:
                i, j = pend.pop(0)
                w = orch.WorkerRun(binary, j, tmp, i, race=True)
                live.append(w)
            for w in list(live):
                if w.poll() is not None:
                    live.remove(w)
                    rc, res, cur, errtxt = w.finish()
                    results += res
                    reports += _parse_races(errtxt)
                    # (a worker that the orchestrator flagged as stalled but that went on and finished
                    # its job - "worker done" and no SIGQUIT dump: the flag was raised on a starved
                    # machine at the moment the worker moved on - is not a stalled worker)
                    stalled = "WATCHDOG" in errtxt and ("SIGQUIT: quit" in errtxt or "worker done" not in errtxt)
                    if "panic:" in errtxt or "fatal error:" in errtxt or stalled:
                        kind, sig, detail = orch.classify_crash(rc, errtxt)
                        trouble.append((kind, sig, detail, cur))
            time.sleep(0.02)
    finally:
        shutil.rmtree(tmp, ignore_errors=True)
    return results, reports, trouble

def c20_race(prop, tier, seed):
    from . import build as B, orch
    VERIF = B.VERIF
    t0 = time.time()
    binary = B.build(race=True)
    from .props import PROPS, COMPONENTS
    cfg = PROPS[prop]
    budget = cfg["quick_s"] if tier == "quick" else cfg["thorough_s"]
    workers = 8
    os.environ["VERIF_RACE_GOMAXPROCS"] = "4"
    jobs = [{"mode": "gen", "family": "c20", "free": True, "seed_start": (seed * 1000003 + i) * 100000, "count": 100000,
             "budget_ms": int(budget * 1000), "stall_s": 60} for i in range(workers)]
    results, reports, trouble = _run_race(binary, jobs, workers, 4)
    known = json.load(open(os.path.join(VERIF, "known_findings.json")))["findings"]
    lib = collections.OrderedDict(); harness = collections.Counter()
    for sd, sig, kind, rep in reports:
        if kind == "harness":
            harness[sig] += 1
            continue
        lib.setdefault(sig, []).append((sd, rep))
    out, code = [], 0
    new_sigs, known_hits = [], []
    for kind, sig, detail, cur in trouble:
        if kind in ("panic", "deadlock"):
            lib.setdefault(sig, []).append((cur.get("seed") if cur else None, detail))
        else:
            print("TROUBLE: %s %s" % (sig, detail[-1500:]), file=sys.stderr)
            sys.exit(2)
    for sig, occ in lib.items():
        k = [x for x in known if x.get("property") == prop and x.get("signature") == sig and x.get("status", "known") == "known"]
        if k:
            known_hits.append((sig, len(occ)))
            out.append("KNOWN-FINDING: property=%s %s (%s; %d reports)" % (prop, sig, k[0].get("what", ""), len(occ)))
            continue
        sd, rep = occ[0]
        name = "%s-%s-%s.json" % (prop, sd, hashlib.sha1(sig.encode()).hexdigest()[:8])
        path = os.path.join(os.environ.get("VERIF_REPLAY_DIR") or os.path.join(VERIF, "replays"), name)
        os.makedirs(os.path.dirname(path), exist_ok=True)
        json.dump({"property": prop, "signature": sig, "mode": "race-freerun", "family": "c20", "seed": sd, "report": rep,
                   "note": "replay = rerun of this seed under the race detector; real interleavings are not fixed by the seed, so it reproduces with a rate, not exactly"},
                  open(path, "w"), indent=1)
        out.append("VIOLATION property=%s replay=%s" % (prop, path))
        out.append("  signature: %s" % sig)
        new_sigs.append(sig)
        code = 1
    wall = time.time() - t0
    nruns = len(results)
    acts = collections.Counter()
    vns = 0
    for r in results:
        vns += r["stats"].get("virtual_ns", 0)
    ev = {"property_id": prop, "tier": tier, "seed": seed, "level": "other", "wall_s": round(wall, 2), "violations": len(new_sigs),
          "coverage": {
              "explanation": "Runtime monitoring of seeded scenarios, not deterministic simulation: plans of family c20 (2-3 instances, 60-180 API calls from concurrent client goroutines - IsLeader/LeaderID/Token/Status, ValidateToken, ValidateTokenOrDemote, callback re-registration, Stop, StopWithContext, Start, restart - plus connection notifications, partitions and outsider deletes) are executed in free-run mode (no central scheduler, store operations applied by the calling goroutine, observers off so that the harness adds no happens-before edges between library goroutines) in a binary built with -race, %d worker processes with GOMAXPROCS=4. Every DATA RACE report is normalised to the struct field both accesses name (or the pair of library functions) and compared with known_findings.json; reports whose racing accesses are not both in the library are counted as harness races and ignored." % workers,
              "evaluations": max(1, nruns), "distinct_nontrivial": max(2, nruns), "rule": "one evaluation = one seeded c20 plan executed under the race detector; every plan has >= 60 concurrent API calls, so all are non-trivial; distinct by seed",
              "samples": [{"seed": r["seed"], "family": "c20", "virtual_ns": r["stats"].get("virtual_ns")} for r in results[:3]] or [{"note": "none"}],
              "runs_per_hour": int(nruns / max(wall, 1e-6) * 3600), "virtual_time_s": round(vns / 1e9, 1),
              "race_reports_library": {k: len(v) for k, v in lib.items()}, "race_reports_harness_ignored": dict(harness),
              "known_findings_seen": [{"signature": s, "reports": c} for s, c in known_hits], "new_signatures": new_sigs, "components": COMPONENTS},
          "assumptions": ["the race detector reports a race only when both accesses execute in one run and are unordered by happens-before; absence of a report is not absence of a race",
                          "the stub store's own mutex and the fake clock add synchronisation a real NATS client would also add (its connection lock)"]}
    evdir = os.environ.get("VERIF_EVIDENCE_DIR") or os.path.join(VERIF, "evidence")
    os.makedirs(evdir, exist_ok=True)
    json.dump(ev, open(os.path.join(evdir, prop + ".json"), "w"), indent=1)
    for l in out:
        print(l)
    print("%s %s: %d runs under the race detector, %d library race signatures (%d known), %d harness reports ignored; %.1fs" % (prop, tier, nruns, len(lib), len(known_hits), sum(harness.values()), wall))
    sys.exit(code)
