package sim

import (
	"bufio"
	"encoding/json"
	"fmt"
	"os"
	"runtime"
	"runtime/debug"
	"strings"
	"testing"
	"time"
)

// Job is what the orchestrator hands to a worker process (env VERIF_JOB = path).
type Job struct {
	Mode       string   `json:"mode"` // "gen" | "plans"
	Family     string   `json:"family"`
	SeedStart  uint64   `json:"seed_start"`
	Count      int      `json:"count"`
	BudgetMs   int64    `json:"budget_ms"`
	DeadlineMs int64    `json:"deadline_unix_ms,omitempty"`
	Judge      []string `json:"judge,omitempty"` // override Plan.Judge
	Plans      []*Plan  `json:"plans,omitempty"`
	Out        string   `json:"out"`
	Trace      bool     `json:"trace,omitempty"`
	KeepPlans  int      `json:"keep_plans,omitempty"` // attach the plan to the first N results
	StallS     int      `json:"stall_s,omitempty"`
	Free       bool     `json:"free,omitempty"` // free-run mode (race detector build)
}

// No watchdog goroutine lives in the worker: a real-time timer would perturb the order in
// which simultaneously woken goroutines run and break replay. The orchestrator watches the
// mtime of <out>.cur (rewritten before every plan) and sends SIGQUIT to a stalled worker;
// the Go runtime then dumps all goroutine stacks, which the orchestrator classifies.

func TestWorker(t *testing.T) {
	path := os.Getenv("VERIF_JOB")
	if path == "" {
		t.Skip("no VERIF_JOB")
	}
	raw, err := os.ReadFile(path)
	if err != nil {
		t.Fatal(err)
	}
	var job Job
	if err := json.Unmarshal(raw, &job); err != nil {
		t.Fatal(err)
	}
	debug.SetGCPercent(-1)
	installHooks()
	out, err := os.Create(job.Out)
	if err != nil {
		t.Fatal(err)
	}
	defer out.Close()
	w := bufio.NewWriter(out)
	defer w.Flush()
	t0 := time.Now()
	emit := func(p *Plan, i int) {
		if len(job.Judge) > 0 {
			p.Judge = job.Judge
		}
		_ = os.WriteFile(job.Out+".cur", []byte(p.JSON()), 0o644)
		if job.Free {
			p.Sched.Free = true
			fmt.Fprintf(os.Stderr, "\nVERIF-PLAN %d %s\n", p.Seed, p.Family)
		}
		var res *Result
		if p.Family == "c17lib" {
			res = RunC17(t, p.Seed)
			progress.Add(1)
		} else if p.Family == "c14sim" {
			res = RunC14(t, p.Seed)
			progress.Add(1)
		} else if job.Free {
			// a detected race fails the (sub)test; keep the worker going
			t.Run(fmt.Sprintf("plan-%d", p.Seed), func(st *testing.T) {
				res = RunPlan(st, p, job.Trace)
			})
			if res == nil {
				res = &Result{Seed: p.Seed, Family: p.Family, Stats: Stats{Faults: map[string]int{}, Probes: map[string]int{}}}
			}
		} else {
			res = RunPlan(t, p, job.Trace)
		}
		if len(res.Viol) > 0 || i < job.KeepPlans || job.Mode == "plans" {
			res.Plan = p
		}
		b, _ := json.Marshal(res)
		w.Write(b)
		w.WriteByte('\n')
		if len(res.Viol) > 0 || i%64 == 0 {
			w.Flush()
		}
		if i%16 == 15 {
			runtime.GC()
		}
	}
	switch job.Mode {
	case "gen":
		for i := 0; i < job.Count; i++ {
			if job.BudgetMs > 0 && time.Since(t0).Milliseconds() > job.BudgetMs {
				break
			}
			if job.DeadlineMs > 0 && time.Now().UnixMilli() > job.DeadlineMs {
				break
			}
			if job.Family == "c17lib" {
				emit(&Plan{Seed: job.SeedStart + uint64(i), Family: "c17lib", Judge: []string{"C17"}}, i)
				continue
			}
			if job.Family == "c14sim" {
				emit(&Plan{Seed: job.SeedStart + uint64(i), Family: "c14sim", Judge: []string{"C14"}}, i)
				continue
			}
			emit(GenPlan(job.Family, job.SeedStart+uint64(i)), i)
		}
	case "plans":
		for i, p := range job.Plans {
			emit(p, i)
		}
	default:
		t.Fatalf("unknown mode %q", job.Mode)
	}
	w.Flush()
	_ = os.Remove(job.Out + ".cur")
	fmt.Fprintf(os.Stderr, "worker done in %v\n", time.Since(t0))
	_ = strings.TrimSpace
}
