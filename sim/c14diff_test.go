package sim

import (
	"context"
	"encoding/json"
	"errors"
	"fmt"
	"os"
	"strings"
	"sync"
	"testing"
	"time"

	leader "github.com/ali-assar/NATS-Leader-Election/leader"
	"github.com/nats-io/nats.go"
)

// C14 (b): differential run of the library's real adapter against a real embedded
// nats-server (loopback, real time) and the reference store of store.go. This is NOT a
// deterministic simulation: the server and the client run real code on real clocks. The driver
// is sequential and never issues an operation within +/-50% of an expiry instant.

type diffJob struct {
	Seeds []uint64 `json:"seeds"`
	Out   string   `json:"out"`
	Ops   int      `json:"ops"`
}

type diffResult struct {
	Seed   uint64      `json:"seed"`
	Ops    []string    `json:"ops"`
	Viol   []Violation `json:"viol,omitempty"`
	Checks int         `json:"checks"`
	WallMs int64       `json:"wall_ms"`
	// TimingUnsafe: an operation may have reached the server inside the expiry window of the last
	// write (the process was held up): the sequence gave no verdict from that operation on
	TimingUnsafe bool `json:"timing_unsafe,omitempty"`
	// Coalesced: versions the server never delivered to the watcher because a later version of the
	// key had superseded them (history 1)
	Coalesced int `json:"coalesced,omitempty"`
}

const diffMaxAge = 600 * time.Millisecond

func errKey(e error) string {
	if e == nil {
		return "nil"
	}
	s := e.Error()
	var api *nats.APIError
	if errors.As(e, &api) {
		s += fmt.Sprintf(" [api code=%d err_code=%d]", api.Code, api.ErrorCode)
	}
	if errors.Is(e, nats.ErrKeyExists) {
		s += " [is ErrKeyExists]"
	}
	if errors.Is(e, nats.ErrKeyNotFound) {
		s += " [is ErrKeyNotFound]"
	}
	return s
}

func TestC14Diff(t *testing.T) {
	path := os.Getenv("VERIF_C14DIFF_JOB")
	if path == "" {
		t.Skip("no VERIF_C14DIFF_JOB")
	}
	raw, err := os.ReadFile(path)
	if err != nil {
		t.Fatal(err)
	}
	var job diffJob
	if err := json.Unmarshal(raw, &job); err != nil {
		t.Fatal(err)
	}
	ctx, cancel := context.WithCancel(context.Background())
	defer cancel()
	srv, err := leader.StartEmbeddedNATSServer(ctx)
	if err != nil {
		t.Fatalf("embedded server: %v", err)
	}
	defer leader.StopEmbeddedNATSServer(srv)
	nc, err := nats.Connect(srv.ClientURL())
	if err != nil {
		t.Fatal(err)
	}
	defer nc.Close()
	js, err := nc.JetStream()
	if err != nil {
		t.Fatal(err)
	}
	var mu sync.Mutex
	var results []*diffResult
	var wg sync.WaitGroup
	sem := make(chan struct{}, 8)
	for i, seed := range job.Seeds {
		wg.Add(1)
		go func(i int, seed uint64) {
			defer wg.Done()
			sem <- struct{}{}
			defer func() { <-sem }()
			r := runDiff(js, fmt.Sprintf("diff%d", i), seed, job.Ops)
			mu.Lock()
			results = append(results, r)
			mu.Unlock()
		}(i, seed)
	}
	wg.Wait()
	f, err := os.Create(job.Out)
	if err != nil {
		t.Fatal(err)
	}
	defer f.Close()
	enc := json.NewEncoder(f)
	for _, r := range results {
		enc.Encode(r)
	}
}

func runDiff(js nats.JetStreamContext, bucket string, seed uint64, nops int) *diffResult {
	t0 := time.Now()
	res := &diffResult{Seed: seed}
	bad := func(sig, detail string) {
		res.Viol = append(res.Viol, Violation{Prop: "C14", Sig: sig, Detail: detail})
	}
	nkv, err := js.CreateKeyValue(&nats.KeyValueConfig{Bucket: bucket, TTL: diffMaxAge, History: 1})
	if err != nil {
		bad("diff-setup", err.Error())
		return res
	}
	defer js.DeleteKeyValue(bucket)
	kv := leader.VerifNewKeyValue(nkv)
	model := NewStore(diffMaxAge, "nats")
	r := NewRng(seed, "c14diff")
	start := time.Now()
	now := func() time.Duration { return time.Since(start) }
	keys := []string{"ka", "kb"}
	lastRev := map[string]uint64{}
	var lastWrite time.Duration = -time.Hour
	if nops == 0 {
		nops = 14
	}
	// one watch on ka, opened at a random position
	watchAt := r.Intn(nops)
	var w leader.Watcher
	var wantEv []string
	var gotEv []string
	var evMu sync.Mutex
	step := uint64(0)
	for i := 0; i < nops; i++ {
		key := Pick(r, keys)
		val := []byte(fmt.Sprintf("v-%d-%d", seed%1000, i))
		// never operate inside (0.5, 1.5) x MaxAge after the last write
		if el := now() - lastWrite; el > diffMaxAge/2-50*time.Millisecond && el < 3*diffMaxAge/2 {
			time.Sleep(2*diffMaxAge - el)
		}
		if i == watchAt {
			ww, err := kv.Watch("ka")
			if err != nil {
				bad("diff-watch-failed", err.Error())
			} else {
				w = ww
				if el := now() - lastWrite; el > diffMaxAge/2 && el < 3*diffMaxAge/2 {
					// (held up around the Watch call: what the server sent as the key's current value and
					// what the model holds at this later moment may legitimately differ)
					res.TimingUnsafe = true
				}
				if v := model.Last("ka", now()); v != nil {
					wantEv = append(wantEv, evStr(v))
				}
				wantEv = append(wantEv, "marker")
				go func() {
					for e := range ww.Updates() {
						evMu.Lock()
						if e == nil {
							gotEv = append(gotEv, "marker")
						} else {
							gotEv = append(gotEv, fmt.Sprintf("rev=%d val=%q", e.Revision(), e.Value()))
						}
						evMu.Unlock()
					}
				}()
				time.Sleep(30 * time.Millisecond)
			}
		}
		if res.TimingUnsafe {
			break
		}
		step++
		tn := now()
		lastWriteBefore := lastWrite
		var desc, got, want string
		wr := writer{inst: -1, op: -1}
		switch r.Intn(9) {
		case 0, 1:
			rv, err := kv.Create(key, val, diffMaxAge)
			mv, merr := model.Create(key, val, tn, step, wr)
			desc = "create " + key
			got, want = fmt.Sprintf("%d %s", rv, errKey(err)), fmt.Sprintf("%d %s", seqOf(mv), errKey(merr))
			if err == nil {
				lastRev[key] = rv
				lastWrite = now()
			}
			if merr == nil && key == "ka" && w != nil {
				wantEv = append(wantEv, evStr(mv))
			}
		case 2, 3, 4:
			var rev uint64
			how := r.Intn(5)
			switch how {
			case 0:
				rev = 0
			case 1:
				rev = lastRev[key] + 1000 // future
			case 2:
				if lastRev[key] > 0 {
					rev = lastRev[key] - 1 // stale (or 0)
				}
			default:
				rev = model.lastSeq(key, tn) // latest
			}
			rv, err := kv.Update(key, val, rev, diffMaxAge)
			mv, merr := model.Update(key, val, rev, tn, step, wr)
			desc = fmt.Sprintf("update %s rev=%d", key, rev)
			got, want = fmt.Sprintf("%d %s", rv, errKey(err)), fmt.Sprintf("%d %s", seqOf(mv), errKey(merr))
			if err == nil {
				lastRev[key] = rv
				lastWrite = now()
			}
			if merr == nil && key == "ka" && w != nil {
				wantEv = append(wantEv, evStr(mv))
			}
		case 5, 6:
			e, err := kv.Get(key)
			mv, merr := model.Get(key, tn)
			desc = "get " + key
			if err == nil && e != nil {
				got = fmt.Sprintf("rev=%d val=%q", e.Revision(), e.Value())
			} else {
				got = errKey(err)
			}
			if merr == nil {
				want = fmt.Sprintf("rev=%d val=%q", mv.Seq, mv.Val)
			} else {
				want = errKey(merr)
			}
		case 7:
			err := kv.Delete(key)
			mv := model.Delete(key, tn, step, wr)
			desc = "delete " + key
			got, want = errKey(err), "nil"
			if err == nil {
				lastRev[key] = mv.Seq
				lastWrite = now()
			}
			if key == "ka" && w != nil {
				wantEv = append(wantEv, evStr(mv))
			}
		default:
			desc = "sleep past MaxAge"
			time.Sleep(2 * diffMaxAge)
			got, want = "-", "-"
		}
		if el := now() - lastWriteBefore; el > diffMaxAge/2 && el < 3*diffMaxAge/2 && desc != "sleep past MaxAge" {
			// the operation was meant to run well before (or well after) the expiry of the last write,
			// but this process was held up (CPU contention) and it may have reached the server inside
			// the window in which server and model can legitimately disagree about expiry: the
			// precondition of the comparison did not hold for this sequence; no verdict from here on
			res.TimingUnsafe = true
			break
		}
		res.Checks++
		res.Ops = append(res.Ops, desc+" -> "+got)
		if got != want {
			bad("adapter-differs-from-reference-model/"+strings.Fields(desc)[0], fmt.Sprintf("step %d %s: adapter/server gave %q, reference model %q; history: %v", i, desc, got, want, res.Ops))
			break
		}
	}
	if w != nil && res.TimingUnsafe {
		w.Stop()
		w = nil
	}
	if w != nil {
		time.Sleep(150 * time.Millisecond)
		// (notifications are asynchronous: give a starved process up to 3 s to receive what the model expects)
		for waited := time.Duration(0); waited < 3*time.Second; waited += 20 * time.Millisecond {
			evMu.Lock()
			n := len(gotEv)
			evMu.Unlock()
			if n >= len(wantEv) {
				break
			}
			time.Sleep(20 * time.Millisecond)
		}
		w.Stop()
		time.Sleep(50 * time.Millisecond)
		evMu.Lock()
		g := strings.Join(gotEv, " | ")
		evMu.Unlock()
		wnt := strings.Join(wantEv, " | ")
		res.Checks++
		// A bucket with history 1 keeps one message per key: a version that is superseded before the
		// server has delivered it to a watcher is gone and is never delivered (seen with the real
		// server: an update followed at once by a delete arrives as the delete alone). So: what was
		// received is what the model expects with, possibly, versions left out that a later version
		// of the key superseded - never the last one, never the initial value or the marker, nothing
		// extra, nothing out of order.
		evMu.Lock()
		got := append([]string(nil), gotEv...)
		evMu.Unlock()
		ok, skipped := true, 0
		mk := 0 // index of the marker in wantEv
		for i, e := range wantEv {
			if e == "marker" {
				mk = i
			}
		}
		gi := 0
		for wi, e := range wantEv {
			if gi < len(got) && got[gi] == e {
				gi++
				continue
			}
			if wi > mk && wi < len(wantEv)-1 {
				skipped++ // superseded by wantEv[wi+1] before it was delivered
				continue
			}
			ok = false
			break
		}
		if gi != len(got) {
			ok = false
		}
		res.Coalesced = skipped
		if !ok && len(res.Viol) == 0 {
			bad("watch-events-differ-from-reference-model", fmt.Sprintf("watch on ka: received [%s], reference model [%s]; ops: %v", g, wnt, res.Ops))
		}
	}
	res.WallMs = time.Since(t0).Milliseconds()
	return res
}

func seqOf(v *Version) uint64 {
	if v == nil {
		return 0
	}
	return v.Seq
}

func evStr(v *Version) string {
	if v.Op == opDel {
		return fmt.Sprintf("rev=%d val=%q", v.Seq, "")
	}
	return fmt.Sprintf("rev=%d val=%q", v.Seq, v.Val)
}
