package sim

import (
	"fmt"
	"math"
	"sort"
	"strings"
	"time"
)

// ---------- sampling at quiescent points (after synctest.Wait) ----------

var validStates = map[string]bool{"INIT": true, "CANDIDATE": true, "LEADER": true, "FOLLOWER": true, "DEMOTED": true, "STOPPED": true}

type groupOwner struct {
	id    string
	since time.Duration
}

// sample is called by the driver right after synctest.Wait: every library
// goroutine is durably blocked. Caller holds d.mu.
func (d *Driver) sample() {
	inSample.Store(true)
	defer inSample.Store(false)
	now := d.lastNow
	p := d.plan
	if d.hasBare && d.parkedInLock == 0 {
		// (not while a goroutine is parked inside a critical section: the flag may be set and the
		// token not yet; the lock release will be observed)
		d.pollClaimsLocked("polled-at-quiescent-point")
	}
	j18 := p.judges("C18")
	j09 := p.judges("C09")
	j05 := p.judges("C05")
	j08 := p.judges("C08")
	if !j18 && !j09 && !j05 && !j08 {
		return
	}
	// owner tracking per group (for follower convergence)
	if d.owners == nil {
		d.owners = map[string]*groupOwner{}
	}
	for _, in := range d.insts {
		g := in.cfg.Group
		live := d.store.Live(g, now)
		ow := d.owners[g]
		if live == nil || !live.P.OK {
			delete(d.owners, g)
		} else if ow == nil || ow.id != live.P.ID {
			d.owners[g] = &groupOwner{id: live.P.ID, since: live.At}
		}
	}
	for _, in := range d.insts {
		for _, o := range in.objs {
			if o.dead || o.inDemote > 0 || o.el == nil {
				continue
			}
			isL := o.el.IsLeader()
			cur := o == in.cur
			busy := in.inflightOps > 0 || in.parkedYields > 0 || in.inStopCall > 0 || in.apiBusy > 0
			if j09 && cur && in.stopOK && in.stopRetStep > 0 && !in.running && in.inStopCall == 0 && in.apiBusy == 0 {
				if isL {
					d.h.violate("C09", "leader-after-stop-returned", fmt.Sprintf("i%d.%d reports IsLeader()==true after its stop call returned at %v", in.idx, o.gen, in.stopRetAt), now, d.step)
				}
			}
			if j08 && d.nParked == 0 && in.inStopCall == 0 && in.apiBusy == 0 && !in.cfg.NoCallbacks && !o.failedStop {
				// nothing of the library is between a flag change and its callback: the claim
				// equals "promotions outnumber demotions by one"
				// (falling edges before OnDemote was registered count as heard: no callback is due)
				if isL != (o.promotes-o.demotes-o.unheardFalls == 1) {
					d.h.violate("C08", fmt.Sprintf("claim-differs-from-callback-balance/leader=%v", isL), fmt.Sprintf("i%d.%d IsLeader()=%v with %d promotions and %d demotions (%d losses of leadership before OnDemote was registered)", in.idx, o.gen, isL, o.promotes, o.demotes, o.unheardFalls), now, d.step)
				}
			}
			if !j18 && !j05 {
				continue
			}
			if d.parkedInLock > 0 {
				// a goroutine is parked inside a critical section: Status() would wait for its mutex
				continue
			}
			st := o.el.Status()
			if j18 {
				d.judgedInc("C18")
				if st.IsLeader != (st.State == "LEADER") {
					d.h.violate("C18", fmt.Sprintf("isleader-state-mismatch/%v/%s", st.IsLeader, st.State), fmt.Sprintf("i%d.%d Status(): IsLeader=%v State=%s", in.idx, o.gen, st.IsLeader, st.State), now, d.step)
				}
				if !validStates[st.State] {
					d.h.violate("C18", "undocumented-state/"+st.State, fmt.Sprintf("i%d.%d State=%q", in.idx, o.gen, st.State), now, d.step)
				}
				if cur && in.stopOK && in.stopRetStep > 0 && !in.running && in.inStopCall == 0 && in.apiBusy == 0 {
					if st.State != "STOPPED" || st.IsLeader {
						d.h.violate("C18", "not-stopped-after-stop/"+st.State, fmt.Sprintf("i%d.%d after stop returned: State=%s IsLeader=%v", in.idx, o.gen, st.State, st.IsLeader), now, d.step)
					}
				}
				if st.IsLeader && !busy {
					if st.LeaderID != in.cfg.ID {
						d.h.violate("C18", "leader-status-leaderid", fmt.Sprintf("i%d.%d leads but Status().LeaderID=%q", in.idx, o.gen, st.LeaderID), now, d.step)
					}
					if st.Token != o.termToken {
						d.h.violate("C18", "leader-status-token", fmt.Sprintf("i%d.%d leads term token %s but Status().Token=%s", in.idx, o.gen, short(o.termToken), short(st.Token)), now, d.step)
					}
					// (after the application cancelled the Start context the run's loops are gone: an
					// acknowledgement that arrives then has no receiver until the claim is given up)
					if !o.lateAck && !o.startCtxCancelled && st.Revision != o.lastAckRev {
						d.h.violate("C18", "leader-status-revision", fmt.Sprintf("i%d.%d leads; latest acknowledged write rev=%d but Status().Revision=%d", in.idx, o.gen, o.lastAckRev, st.Revision), now, d.step)
					}
				}
				if o.gaugeSet && !busy && (o.gauge == 1) != isL {
					d.h.violate("C18", "gauge-differs-from-flag", fmt.Sprintf("i%d.%d is-leader gauge=%v IsLeader()=%v", in.idx, o.gen, o.gauge, isL), now, d.step)
				}
				// follower convergence
				// judged only when one Get is shorter than half the 500 ms check period: otherwise the
				// watch loop can be busy with back-to-back periodic checks and the moment it drains
				// its event channel depends on select fairness, for which the statement gives no number
				rf, rfEnd := d.readFaultFor(in.idx)
				// a started instance whose first attempt lost is a follower once that attempt has
				// returned (at most a Create and a takeover read) and its Watch call has been answered:
				// three operation latencies after Start returned, watching or not (an instance that
				// never gets that far does not converge either)
				lam := p.Store.Req[1] + p.Store.Resp[1]
				watching, since := in.watchOK, in.watchOKAt
				if !watching && !d.faultyFor(in.idx) && in.startedAt > 0 && now > in.startedAt+3*lam+200*time.Millisecond+p.Sched.StallMax*4 && !d.opFaultedSince(in.idx, in.startInvAt) {
					watching, since = true, in.startedAt+3*lam+200*time.Millisecond
				}
				if cur && in.running && !isL && watching && !rf && lam < 250*time.Millisecond {
					if ow := d.owners[in.cfg.Group]; ow != nil && ow.id != in.cfg.ID {
						t0 := ow.since
						if since > t0 {
							t0 = since
						}
						if rfEnd > t0 {
							t0 = rfEnd
						}
						// a follower that has just stepped down learns the new owner like any other
						if in.fellAt > t0 {
							t0 = in.fellAt
						}
						// so does one that has just been told something outdated by a late notification
						if in.lastStaleEvtAt > t0 {
							t0 = in.lastStaleEvtAt
						}
						// The statement gives no number for "converges"; the check allows both ways a
						// follower can learn the owner to complete: a periodic check (500 ms + one Get)
						// and the delivery of the watch events (the plan's maximal watch delay).
						bound := 500*time.Millisecond + p.Store.Req[1] + p.Store.Resp[1] + 2*time.Millisecond
						if wd := p.Store.WatchDelay[1] + 2*time.Millisecond; wd > bound {
							bound = wd
						}
						bound += 600*time.Millisecond + p.Store.Req[1] + p.Store.Resp[1]
						if now > t0+bound+p.Sched.StallMax*4 && st.LeaderID != ow.id {
							d.h.violate("C18", fmt.Sprintf("follower-leaderid-not-converged/have-empty=%v", st.LeaderID == ""),
								fmt.Sprintf("i%d.%d follower since %v: live record names %s since %v but Status().LeaderID=%q", in.idx, o.gen, in.watchOKAt, ow.id, ow.since, st.LeaderID), now, d.step)
						}
					}
				}
			}
			if j05 && isL && !busy {
				live := d.store.Live(in.cfg.Group, now)
				if live != nil && live.Writer == in.idx && live.Gen == o.gen && live.P.OK {
					d.judgedInc("C05")
					if tk := o.el.Token(); tk != live.P.Token || st.Token != live.P.Token {
						d.h.violate("C05", "leader-token-differs-from-record", fmt.Sprintf("i%d.%d Token()=%s Status().Token=%s record token=%s", in.idx, o.gen, short(tk), short(st.Token), short(live.P.Token)), now, d.step)
					}
				}
			}
		}
	}
}

// faultyFor reports whether a fault window currently covers the instance.
// opFaultedSince: one of the instance's operations invoked at or after t was hit by a fault (or
// is still on its way).
func (d *Driver) opFaultedSince(inst int, t time.Duration) bool {
	for i := len(d.h.Ops) - 1; i >= 0; i-- {
		op := d.h.Ops[i]
		if op.TInvoke < t {
			break
		}
		if op.Inst == inst && (op.Fault != "" || op.TRet < 0) {
			return true
		}
	}
	return false
}

func (d *Driver) faultyFor(inst int) bool {
	now := d.lastNow
	for i := range d.plan.Faults {
		f := &d.plan.Faults[i]
		if f.OpN > 0 {
			continue
		}
		if f.Inst >= 0 && f.Inst != inst {
			continue
		}
		if now >= f.From && (f.To == 0 || now < f.To+d.clientTimeout()+time.Second) {
			return true
		}
	}
	return false
}

// readFaultFor: is (or was until a moment ago) a fault active that can make the instance's reads
// fail or crawl? Returns also the end of the latest such fault window that is over. Watch-delivery
// faults and faults on other operation kinds do not count: a follower learns the record's owner
// from its periodic read as well.
func (d *Driver) readFaultFor(inst int) (active bool, lastEnd time.Duration) {
	now := d.lastNow
	for i := range d.plan.Faults {
		f := &d.plan.Faults[i]
		switch f.Kind {
		case FWatchDrop, FWatchHold, FWatchDup, FWatchFail, FWatchClose:
			continue
		}
		if f.OpN > 0 || f.Inst >= 0 && f.Inst != inst || f.Op != "" && f.Op != "get" {
			continue
		}
		end := f.To + d.clientTimeout() + time.Second
		if now >= f.From && (f.To == 0 || now < end) {
			active = true
		} else if f.To > 0 && now >= end && end > lastEnd {
			lastEnd = end
		}
	}
	return
}

// ---------- C05 ----------

func (d *Driver) judgeC05() {
	seen := map[string]*Version{}
	for _, v := range d.store.All {
		if v.Op != opPut || !v.P.OK {
			continue
		}
		if v.Writer >= 0 {
			op := d.h.Ops[v.OpID]
			prev := op.PrevLive
			refresh := v.Kind == "update" && prev != nil && prev.Writer == v.Writer && prev.Gen == v.Gen
			d.judgedInc("C05")
			if refresh {
				if v.P.Token != prev.P.Token || v.P.ID != prev.P.ID {
					d.h.violate("C05", "refresh-changes-token/"+callerSig(op.Caller), fmt.Sprintf("i%d refresh wrote %s over %s", v.Writer, v.Val, prev.Val), v.At, v.Step)
				}
			} else if first, dup := seen[v.P.Token]; dup {
				d.h.violate("C05", "token-reused/"+callerSig(op.Caller), fmt.Sprintf("i%d.%d acquisition at %v published token %s already used by seq=%d (i%d.%d at %v)", v.Writer, v.Gen, v.At, short(v.P.Token), first.Seq, first.Writer, first.Gen, first.At), v.At, v.Step)
			}
		}
		if _, ok := seen[v.P.Token]; !ok {
			seen[v.P.Token] = v
		}
	}
	// token handed to OnPromote / visible at the rising edge equals the record's
	terms := d.terms()
	for _, t := range terms {
		if t.Rise.Live != nil && t.Rise.Live.Writer == t.Inst && t.Rise.Live.Gen == t.Gen && t.Rise.Live.P.OK {
			if t.Token != t.Rise.Live.P.Token {
				d.h.violate("C05", "token-at-promotion-differs-from-record", fmt.Sprintf("i%d.%d Token()=%s at promotion, record has %s", t.Inst, t.Gen, short(t.Token), short(t.Rise.Live.P.Token)), t.Start, t.SStart)
			}
		}
	}
	byObj := map[[2]int][]*Term{}
	for _, t := range terms {
		k := [2]int{t.Inst, t.Gen}
		byObj[k] = append(byObj[k], t)
	}
	for _, c := range d.h.Cbs {
		if c.Kind != "promote_enter" {
			continue
		}
		ts := byObj[[2]int{c.Inst, c.Gen}]
		// the n-th OnPromote of an object belongs to its n-th term (the callback may be entered
		// after the term has ended: the library starts it from a goroutine of its own)
		var t *Term
		if c.Term >= 1 && c.Term <= len(ts) {
			t = ts[c.Term-1]
		}
		if t == nil || t.SStart > c.Step {
			continue
		}
		if t.Rise.Live != nil && t.Rise.Live.Writer == t.Inst && t.Rise.Live.Gen == t.Gen && t.Rise.Live.P.OK {
			d.judgedInc("C05")
			if c.Token != t.Rise.Live.P.Token {
				d.h.violate("C05", "onpromote-token-differs-from-record", fmt.Sprintf("i%d.%d OnPromote got %s, record has %s", c.Inst, c.Gen, short(c.Token), short(t.Rise.Live.P.Token)), c.T, c.Step)
			}
		}
	}
}

// ---------- C07 ----------

func stopStack(s string) bool {
	return strings.HasPrefix(s, "Stop") || strings.HasPrefix(s, "StopWithContext")
}

func (d *Driver) judgeC07() {
	if ok, _ := d.latencyPreconditionOK(d.plan.H / 2); !ok {
		d.skip("C07", "latency-precondition")
		return
	}
	for _, t := range d.terms() {
		if t.Obj == nil || t.Obj.dead {
			continue
		}
		d.judgedInc("C07")
		in := d.inst(t.Inst)
		// a term during which the application cancelled the context it gave to Start is ending by
		// the application's own doing (its refreshes stop at once, the claim goes when the library's
		// reaction is scheduled): not a term whose stability C07 speaks about
		byCancel := false
		for _, a := range d.h.Apis {
			if a.Inst == t.Inst && a.Gen == t.Gen && a.Kind == ACancelStart && a.SInv >= t.SStart && (t.Fall == nil || a.SInv <= t.SEnd) {
				byCancel = true
			}
		}
		if byCancel {
			continue
		}
		if t.Fall != nil && !stopStack(t.EndStack) && t.SEnd < d.endStep {
			d.h.violate("C07", "spurious-demotion/"+t.EndStack, fmt.Sprintf("i%d.%d led from %v and was demoted at %v by %s without being stopped (fault-free run)", t.Inst, t.Gen, t.Start, t.End, t.EndStack), t.End, t.SEnd)
			continue
		}
		// the record must stay the term's record for the whole term
		end := t.End
		if end < 0 {
			end = d.lastNow
		}
		cur := t.Start
		for _, iv := range d.liveTimeline(in.cfg.Group) {
			if iv.b <= cur {
				continue
			}
			if iv.a > cur || !(iv.v.P.OK && iv.v.P.ID == in.cfg.ID && iv.v.P.Token == t.Token) {
				break
			}
			cur = iv.b
			if cur >= end {
				break
			}
		}
		if cur < end {
			d.h.violate("C07", "record-lapsed-or-changed-during-term", fmt.Sprintf("i%d.%d term from %v: at %v the record is no longer the term's record", t.Inst, t.Gen, t.Start, cur), cur, 0)
		}
	}
}

// ---------- C08 ----------

func (d *Driver) judgeC08() {
	type item struct {
		step uint64
		ord  int
		kind string // rise fall promote demote
		c    *ClaimEvt
		cb   *CbEvt
	}
	per := map[[2]int][]item{}
	n := 0
	for _, c := range d.h.Claims {
		if !c.Edge {
			continue
		}
		k := "fall"
		if c.Val {
			k = "rise"
		}
		n++
		per[[2]int{c.Inst, c.Gen}] = append(per[[2]int{c.Inst, c.Gen}], item{c.Step, n, k, c, nil})
	}
	for _, cb := range d.h.Cbs {
		if cb.Kind != "promote_enter" && cb.Kind != "demote_enter" {
			continue
		}
		k := "promote"
		if cb.Kind == "demote_enter" {
			k = "demote"
		}
		n++
		per[[2]int{cb.Inst, cb.Gen}] = append(per[[2]int{cb.Inst, cb.Gen}], item{cb.Step, n, k, nil, cb})
	}
	keys := make([][2]int, 0, len(per))
	for k := range per {
		keys = append(keys, k)
	}
	sort.Slice(keys, func(i, j int) bool {
		if keys[i][0] != keys[j][0] {
			return keys[i][0] < keys[j][0]
		}
		return keys[i][1] < keys[j][1]
	})
	for _, k := range keys {
		o := d.obj(k[0], k[1])
		if o == nil || o.dead || o.in.cfg.NoCallbacks {
			continue
		}
		items := per[k]
		// claims and callbacks were appended in real order within their own lists; merge by step, then
		// by kind priority inside one step: rise < promote, fall < demote (callbacks follow their edge)
		sort.SliceStable(items, func(i, j int) bool { return items[i].step < items[j].step })
		d.judgedInc("C08")
		// Two sequences are matched: claim edges (rise_i, fall_i: term i) and callback entries
		// (P_i, D_i). The library starts the callbacks from goroutines of its own, so a callback
		// may be entered any time after its edge; what the statement fixes is their order:
		// P_1 D_1 P_2 D_2 ..., P_i after rise_i with term i's token, D_i after fall_i, nothing extra,
		// nothing missing at the end. (That the claim equals "promotions outnumber demotions by
		// one" whenever nothing of the instance is in motion is checked at the quiescent points,
		// see sample().)
		var rises, falls []*ClaimEvt
		// per fall: "due" (OnDemote was registered before the claim fell: the callback must run),
		// "optional" (it was registered later: the library reads the callback field after the
		// claim has fallen, so the callback may or may not run), "none" (never registered)
		var state []string
		matched := map[int]bool{}
		regLater := o.demoteReg // registered at some point of the run
		nP := 0
		leading := false
		firstPending := func(kind string) int {
			for i, st := range state {
				if st == kind && !matched[i] {
					return i
				}
			}
			return -1
		}
		var prevCbT time.Duration = -1 // entry time of the latest callback so far
		for _, it := range items {
			cbBefore := prevCbT
			if it.kind == "promote" || it.kind == "demote" {
				prevCbT = it.cb.T
			}
			switch it.kind {
			case "rise":
				rises = append(rises, it.c)
				leading = true
			case "fall":
				falls = append(falls, it.c)
				leading = false
				switch {
				case d.expectsOnDemote(k[0], k[1], it.c.Step):
					state = append(state, "due")
				case regLater:
					state = append(state, "optional")
				default:
					state = append(state, "none")
				}
			case "promote":
				if nP >= len(rises) {
					d.h.violate("C08", "extra-onpromote", fmt.Sprintf("i%d.%d OnPromote at %v without a new term", k[0], k[1], it.cb.T), it.cb.T, it.cb.Step)
					continue
				}
				nP++
				if tok := rises[nP-1].Token; it.cb.Token != tok {
					d.h.violate("C08", "onpromote-wrong-token", fmt.Sprintf("i%d.%d OnPromote(%s) for term token %s", k[0], k[1], short(it.cb.Token), short(tok)), it.cb.T, it.cb.Step)
				}
				// OnPromote of term i+1 entered before OnDemote of term i (i = nP-1)?
				if i := firstPending("due"); i >= 0 && i < nP-1 {
					lf := falls[i]
					if !d.stopFailed(lf, o) {
						d.h.violate("C08", "missing-ondemote/fall-by:"+lf.Stack, fmt.Sprintf("i%d.%d stopped being leader at %v (%s) and OnDemote had not run when OnPromote of its next term ran at %v", k[0], k[1], lf.T, lf.Stack, it.cb.T), lf.T, lf.Step)
					}
					matched[i] = true
				}
				// an optional callback that has not come by now will not be matched any more
				for i := 0; i < nP-1 && i < len(state); i++ {
					if state[i] == "optional" {
						matched[i] = true
					}
				}
			case "demote":
				i := firstPending("due")
				if j := firstPending("optional"); j >= 0 && (i < 0 || j < i) {
					i = j
				}
				if i < 0 {
					why := "not-leader-before"
					if leading {
						why = "while-still-leader"
					}
					d.h.violate("C08", "extra-ondemote/"+why+"/by:"+it.cb.Token, fmt.Sprintf("i%d.%d OnDemote at %v (called from %s) without a matching loss of leadership", k[0], k[1], it.cb.T, it.cb.Token), it.cb.T, it.cb.Step)
					continue
				}
				matched[i] = true
				lf := falls[i]
				if nP < i+1 {
					d.h.violate("C08", "ondemote-before-onpromote/by:"+it.cb.Token, fmt.Sprintf("i%d.%d OnDemote of term %d at %v before the term's OnPromote", k[0], k[1], i+1, it.cb.T), it.cb.T, it.cb.Step)
					nP = i + 1
				}
				// promptness: outside stop calls the callback must run by the next quiescent point
				// (same virtual instant: a goroutine preempted between clearing the claim and calling
				// the callback is not at a quiescent point yet; positive stalls are allowed for)
				// (callbacks are started in the order of the leadership changes: one that had to wait
				// for its predecessor - a stop call reports its demotion at its very end, the next
				// run's callbacks queue behind it - is late only with respect to that one)
				base := lf.T
				if cbBefore > base {
					base = cbBefore
				}
				if !stopStack(lf.Stack) && it.cb.T > base+d.stallIn(k[0], lf.T, it.cb.T) {
					d.h.violate("C08", "late-ondemote/fall-by:"+lf.Stack, fmt.Sprintf("i%d.%d lost leadership at step %d (%v) but OnDemote ran at step %d (%v)", k[0], k[1], lf.Step, lf.T, it.cb.Step, it.cb.T), it.cb.T, it.cb.Step)
				}
			}
		}
		for i, lf := range falls {
			if state[i] == "due" && !matched[i] && lf.Step < d.endStep && !d.stopFailed(lf, o) {
				d.h.violate("C08", "missing-ondemote/fall-by:"+lf.Stack, fmt.Sprintf("i%d.%d stopped being leader at %v (%s) and OnDemote never ran", k[0], k[1], lf.T, lf.Stack), lf.T, lf.Step)
				break
			}
		}
		if nP < len(rises) && rises[nP].Step < d.endStep {
			d.h.violate("C08", "missing-onpromote", fmt.Sprintf("i%d.%d became leader at %v but OnPromote never ran for the term", k[0], k[1], rises[nP].T), rises[nP].T, rises[nP].Step)
		}
	}
}

// stopFailed: the falling edge was made by a StopWithContext call that returned an
// error (the property promises the callback only for a successful one), or by a
// stop call still in progress at the end of the plan.
func (d *Driver) stopFailed(fall *ClaimEvt, o *elObj) bool {
	if fall == nil || !stopStack(fall.Stack) {
		return false
	}
	for _, a := range d.h.Apis {
		if a.Inst != fall.Inst || a.Gen != fall.Gen {
			continue
		}
		if a.Kind != AStop && a.Kind != AStopCtx {
			continue
		}
		if a.SInv <= fall.Step && (a.TRet < 0 || a.SRet >= fall.Step) {
			if a.TRet < 0 || a.Err != nil || a.SRet >= d.endStep {
				return true
			}
		}
	}
	return false
}

// ---------- C19 ----------

func (d *Driver) judgeC19() {
	type cbs struct{ enter, exit, done *CbEvt }
	per := map[[3]int]*cbs{}
	for _, c := range d.h.Cbs {
		switch c.Kind {
		case "promote_enter", "promote_exit", "ctx_done":
		default:
			continue
		}
		k := [3]int{c.Inst, c.Gen, c.Term}
		x := per[k]
		if x == nil {
			x = &cbs{}
			per[k] = x
		}
		switch c.Kind {
		case "promote_enter":
			x.enter = c
		case "promote_exit":
			x.exit = c
		case "ctx_done":
			x.done = c
		}
	}
	terms := d.terms()
	byObj := map[[2]int][]*Term{}
	for _, t := range terms {
		byObj[[2]int{t.Inst, t.Gen}] = append(byObj[[2]int{t.Inst, t.Gen}], t)
	}
	keys := make([][3]int, 0, len(per))
	for k := range per {
		keys = append(keys, k)
	}
	sort.Slice(keys, func(i, j int) bool {
		for x := 0; x < 3; x++ {
			if keys[i][x] != keys[j][x] {
				return keys[i][x] < keys[j][x]
			}
		}
		return false
	})
	for _, k := range keys {
		x := per[k]
		if x.enter == nil {
			continue
		}
		o := d.obj(k[0], k[1])
		if o == nil || o.dead {
			continue
		}
		// the term this callback belongs to: the n-th OnPromote of an object belongs to its n-th
		// term (C08 checks that pairing and the tokens); the library starts the callback from a
		// goroutine of its own, possibly after the term has already ended
		var t *Term
		if ts := byObj[[2]int{k[0], k[1]}]; k[2] >= 1 && k[2] <= len(ts) {
			t = ts[k[2]-1]
		}
		if t == nil || t.SStart > x.enter.Step {
			continue
		}
		d.judgedInc("C19")
		exitedBefore := func(step uint64) bool { return x.exit != nil && x.exit.Step < step }
		// the application itself may cancel the context it gave to Start: the promotion context is
		// derived from it and goes down at that moment, a moment before the claim does
		byApp := false
		if x.done != nil {
			for _, a := range d.h.Apis {
				if a.Inst == k[0] && a.Gen == k[1] && a.Kind == ACancelStart && a.SInv <= x.done.Step && a.SInv >= t.SStart {
					byApp = true
				}
			}
		}
		// (a callback that had already returned when the context went down does not count; one that
		// blocks on its context returns *because* of the cancellation, in the same step)
		exitedFirst := x.exit != nil && x.done != nil && (x.exit.Step < x.done.Step || x.exit.Step == x.done.Step && o.in.cfg.PromoteMode != "block" && x.exit.Ord < x.done.Ord)
		if x.done != nil && !byApp && (t.Fall == nil || x.done.Step < t.SEnd) && !exitedFirst {
			d.h.violate("C19", "context-cancelled-during-term", fmt.Sprintf("i%d.%d term from %v: promotion context cancelled at %v while still leading and the callback running", k[0], k[1], t.Start, x.done.T), x.done.T, x.done.Step)
		}
		// ... but then the term goes down with it: the library gives up the claim as soon as it notices
		// the cancellation (the goroutine that does so belongs to no instance the harness knows; its
		// stalls are the plan's opt-in stalls of unattributed goroutines)
		if x.done != nil && byApp && !exitedFirst && !o.dead {
			slack := d.stallIn(k[0], x.done.T, x.done.T+time.Second) + time.Millisecond
			if d.plan.Sched.StallUnknown {
				slack += 4 * d.plan.Sched.StallMax
			}
			if due := x.done.T + slack; due < d.endAt && (t.Fall == nil || t.End > due) {
				when := "never"
				if t.Fall != nil {
					when = fmt.Sprintf("only at %v", t.End)
				}
				d.h.violate("C19", "term-outlives-cancelled-start-context", fmt.Sprintf("i%d.%d term from %v: the application cancelled the context given to Start, the promotion context went down at %v, but the instance gave up the term %s", k[0], k[1], t.Start, x.done.T, when), due, x.done.Step)
			}
		}
		if t.Fall != nil && t.SEnd < d.endStep && !exitedBefore(t.SEnd) {
			// callback still running at the end of the term: the context must be done by the next quiescent point
			if x.done == nil || (x.done.T > t.End && x.done.T > x.enter.T) {
				when := "never"
				if x.done != nil {
					when = fmt.Sprintf("only at %v", x.done.T)
				}
				cause := t.EndStack
				d.h.violate("C19", "context-not-cancelled-at-term-end/fall-by:"+cause, fmt.Sprintf("i%d.%d term ended at %v (%s) but the promotion context was cancelled %s", k[0], k[1], t.End, cause, when), t.End, t.SEnd)
			}
		}
	}
}

// ---------- C17 (iii): acquisition rounds; in-situ CalculateBackoff bound ----------

func (d *Driver) judgeC17rounds() {
	// group jitter draws, attempt starts and store ops by goroutine (= acquisition round)
	type round struct {
		start    *JitterEvt
		draws    []*JitterEvt
		attempts []*AttemptEvt
		ops      []*Op
	}
	rounds := map[uint64]*round{}
	var order []uint64
	for _, j := range d.h.Jitters {
		if strings.HasPrefix(j.Caller, "attemptAcquireWithRetry") {
			if rounds[j.GID] == nil {
				rounds[j.GID] = &round{start: j}
				order = append(order, j.GID)
			}
			continue
		}
		if strings.HasPrefix(j.Caller, "CalculateBackoff<attemptAcquireWithRetry") {
			if r := rounds[j.GID]; r != nil {
				r.draws = append(r.draws, j)
			}
		}
	}
	for _, a := range d.h.Attempts {
		if r := rounds[a.GID]; r != nil && a.T >= r.start.T {
			r.attempts = append(r.attempts, a)
		}
	}
	for _, op := range d.h.Ops {
		if r := rounds[op.GID]; r != nil && op.TInvoke >= r.start.T {
			r.ops = append(r.ops, op)
		}
	}
	stallOf := func(g uint64, a, b time.Duration) time.Duration {
		var s time.Duration
		for _, st := range d.h.Stalls {
			if st.GID == g && st.T <= b && st.T+st.D >= a {
				s += st.D
			}
		}
		return s
	}
	for _, g := range order {
		r := rounds[g]
		if len(r.attempts) == 0 {
			continue
		}
		d.judgedInc("C17")
		first := r.attempts[0]
		inst := -1
		if len(r.ops) > 0 {
			inst = r.ops[0].Inst
		}
		wait := first.T - r.start.T
		want := 10*time.Millisecond + time.Duration(r.start.F*float64(90*time.Millisecond))
		slack := stallOf(g, r.start.T, first.T)
		if wait < 10*time.Millisecond || wait > 100*time.Millisecond+slack {
			d.h.violate("C17", "acquire-jitter-out-of-range", fmt.Sprintf("round of i%d: first attempt %v after the round began (must be 10-100ms)", inst, wait), first.T, first.Step)
		} else if wait < want || wait > want+slack {
			d.h.violate("C17", "acquire-jitter-not-from-draw", fmt.Sprintf("round of i%d: waited %v, draw %.6f gives %v", inst, wait, r.start.F, want), first.T, first.Step)
		}
		if len(r.attempts) > 4 {
			d.h.violate("C17", "acquire-more-than-4-attempts", fmt.Sprintf("round of i%d made %d attempts", inst, len(r.attempts)), r.attempts[4].T, r.attempts[4].Step)
		}
		// an attempt is one try to create the record: a second Create inside one attempt (no backoff
		// in between) is an attempt the round does not account for
		nCreates := 0
		for k, at := range r.attempts {
			n := 0
			for _, op := range r.ops {
				if op.Kind == "create" && op.SInvoke >= at.Step && (k+1 == len(r.attempts) || op.SInvoke < r.attempts[k+1].Step) {
					n++
				}
			}
			nCreates += n
			if n > 1 {
				d.h.violate("C17", "acquire-attempt-with-several-creates", fmt.Sprintf("round of i%d: attempt %d issued %d Create calls without a backoff between them", inst, k+1, n), at.T, at.Step)
			}
		}
		if nCreates > 4 {
			d.h.violate("C17", "acquire-more-than-4-creates", fmt.Sprintf("round of i%d issued %d Create calls", inst, nCreates), first.T, first.Step)
		}
		// gaps: end of attempt k (return of its last store operation, or its start if it issued
		// none) + backoff(k) = start of attempt k+1
		for k := 1; k < len(r.attempts); k++ {
			prev, nxt := r.attempts[k-1], r.attempts[k]
			lastRet := prev.T
			pending := false
			for _, op := range r.ops {
				if op.TInvoke >= prev.T && op.SInvoke < nxt.Step+1 && op.TInvoke <= nxt.T {
					if op.TRet < 0 || op.TRet > nxt.T {
						pending = true
					} else if op.TRet > lastRet {
						lastRet = op.TRet
					}
				}
			}
			if pending || k-1 >= len(r.draws) {
				continue
			}
			base := float64(50*time.Millisecond) * math.Pow(2, float64(k-1))
			if base > float64(5*time.Second) {
				base = float64(5 * time.Second)
			}
			f := r.draws[k-1].F
			wantB := time.Duration(base + base*0.1*(f*2-1))
			gap := nxt.T - lastRet
			sl := stallOf(g, lastRet, nxt.T)
			lo, hi := time.Duration(base*0.9), time.Duration(base*1.1)
			if gap < lo || gap > hi+sl {
				d.h.violate("C17", "acquire-backoff-out-of-range", fmt.Sprintf("round of i%d: gap %v before attempt %d, expected within 10%% of %v", inst, gap, k+1, time.Duration(base)), nxt.T, nxt.Step)
			} else if gap < wantB-1 || gap > wantB+sl+1 {
				d.h.violate("C17", "acquire-backoff-not-from-draw", fmt.Sprintf("round of i%d: gap %v before attempt %d, draw gives %v", inst, gap, k+1, wantB), nxt.T, nxt.Step)
			}
		}
	}
}

// ---------- C09 ----------

// stopBudget is the time a StopWithContext call may take: its Timeout option (or, if zero,
// the context's deadline, or 5 s), cut short by the context's own deadline or cancellation.
func stopBudget(a *Action) time.Duration {
	to := a.Timeout
	if to == 0 {
		to = 5 * time.Second
		if a.CtxTimeout > 0 {
			to = a.CtxTimeout
		}
	}
	if a.CtxTimeout > 0 && a.CtxTimeout < to {
		to = a.CtxTimeout
	}
	if a.CtxCancelAt > 0 && a.CtxCancelAt < to {
		to = a.CtxCancelAt
	}
	return to
}

func (d *Driver) judgeC09() {
	for _, a := range d.h.Apis {
		if a.Kind != AStop && a.Kind != AStopCtx {
			continue
		}
		o := d.obj(a.Inst, a.Gen)
		if o == nil || o.dead {
			continue
		}
		in := d.inst(a.Inst)
		d.judgedInc("C09")
		if a.TRet < 0 {
			if a.SInv < d.endStep && d.endAt-a.TInv > 30*time.Second {
				d.h.violate("C09", "stop-never-returned/"+a.Kind, fmt.Sprintf("i%d %s invoked at %v had not returned at the end of the plan (%v)", a.Inst, a.Kind, a.TInv, d.endAt), a.TInv, a.SInv)
			}
			continue
		}
		// virtual stalls injected at yield sites inside the call are not the call's doing
		dur := a.TRet - a.TInv - d.stallIn(a.Inst, a.TInv, a.TRet)
		if a.Kind == AStop {
			bound := 5*time.Second + in.cfg.DemoteDur + time.Millisecond
			if dur > bound {
				d.h.violate("C09", "stop-too-slow", fmt.Sprintf("i%d Stop took %v (> 5s + OnDemote %v)", a.Inst, dur, in.cfg.DemoteDur), a.TRet, a.SRet)
			}
		} else {
			to := stopBudget(a.Act)
			if dur > to+time.Millisecond {
				d.h.violate("C09", "stopctx-exceeds-timeout", fmt.Sprintf("i%d StopWithContext(timeout %v, wait_for_demote=%v) took %v", a.Inst, to, a.Act.WaitForDemote, dur), a.TRet, a.SRet)
			}
		}
		if a.Err != nil {
			continue // only a successful stop is final
		}
		// another stop call of the same object still running when this one returned: the object
		// is "in the middle of a stop call"; the later return is the one that is judged
		overlapped := false
		for _, b := range d.h.Apis {
			if b != a && b.Inst == a.Inst && b.Gen == a.Gen && (b.Kind == AStop || b.Kind == AStopCtx) && b.SInv <= a.SRet && (b.TRet < 0 || b.SRet > a.SRet || (b.SRet == a.SRet && b.ID > a.ID)) {
				overlapped = true
			}
		}
		if overlapped {
			d.skip("C09", "overlapping-stop-calls")
			continue
		}
		// the window in which the instance must stay silent: until its next Start (or end of plan)
		endStep := d.endStep
		for _, b := range d.h.Apis {
			if b.Inst == a.Inst && (b.Kind == AStart || b.Kind == ARestart) && b.SInv > a.SRet && b.SInv < endStep {
				endStep = b.SInv
			}
		}
		for _, c := range d.h.Claims {
			if c.Inst == a.Inst && c.Gen == a.Gen && c.Val && c.Step > a.SRet && c.Step < endStep {
				d.h.violate("C09", "claim-after-stop/"+c.Stack, fmt.Sprintf("i%d set its leadership claim at %v after %s returned at %v", a.Inst, c.T, a.Kind, a.TRet), c.T, c.Step)
			}
		}
		for _, c := range d.h.Cbs {
			if c.Inst == a.Inst && c.Gen == a.Gen && c.Kind == "promote_enter" && c.Step > a.SRet && c.Step < endStep {
				d.h.violate("C09", "onpromote-after-stop", fmt.Sprintf("i%d OnPromote at %v after %s returned at %v", a.Inst, c.T, a.Kind, a.TRet), c.T, c.Step)
			}
		}
		for _, op := range d.h.Ops {
			if op.Inst == a.Inst && op.Gen == a.Gen && op.SInvoke > a.SRet && op.SInvoke < endStep {
				d.h.violate("C09", "store-op-after-stop/"+op.Kind+"/"+callerSig(op.Caller), fmt.Sprintf("i%d invoked %s at %v after %s returned at %v", a.Inst, op.Kind, op.TInvoke, a.Kind, a.TRet), op.TInvoke, op.SInvoke)
			}
		}
		// DeleteKey by the owner: record gone at return
		// (two stop calls of one object that overlap in time split the work between them in a way
		// the statement does not pin down: the DeleteKey clause is judged for calls that ran alone)
		alone := true
		for _, b := range d.h.Apis {
			if b != a && b.Inst == a.Inst && b.Gen == a.Gen && (b.Kind == AStop || b.Kind == AStopCtx) && b.SInv <= a.SRet && (b.TRet < 0 || b.SRet >= a.SInv) {
				alone = false
			}
		}
		if a.SRet >= d.endStep {
			// the call was still under way when the plan ended: the harness's own shutdown ran into it
			d.skip("C09", "deletekey-call-overtaken-by-end-of-plan")
		} else if !alone {
			d.skip("C09", "deletekey-concurrent-stop-calls")
		} else if a.Kind == AStopCtx && a.Act.DeleteKey && a.WasLeaderAtInv {
			// was X the owner at entry?
			// judged only if the deletion the call issued was not hit by an injected store fault
			// (the statement cannot promise the record gone when the store does not answer)
			// ... and completed (or would have completed) before the call's own deadline: with a slow
			// store the call cannot both honour its time-out and wait for the deletion
			faulted, issued := false, false
			to := stopBudget(a.Act)
			for _, op := range d.h.Ops {
				if op.Inst == a.Inst && op.Gen == a.Gen && op.Kind == "delete" && op.SInvoke >= a.SInv && op.SInvoke <= a.SRet {
					issued = true
					if op.Fault != "" || !op.Applied || op.TRet < 0 || op.TRet > a.TInv+to-time.Millisecond {
						faulted = true
					}
				}
			}
			// a demotion by another cause that lands while the stop call is starting (same instant,
			// or while the caller is stalled before the call's first lock): whether the call still
			// finds a leader is decided by the scheduler, not by the library
			demotedMeanwhile := false
			for _, c := range d.h.Claims {
				if c.Edge && !c.Val && c.Inst == a.Inst && c.Gen == a.Gen && c.Step >= a.SInv && c.Step <= a.SRet && !stopStack(c.Stack) {
					demotedMeanwhile = true
				}
			}
			if faulted {
				d.skip("C09", "deletekey-delete-faulted")
			} else if demotedMeanwhile && !issued {
				d.skip("C09", "deletekey-demoted-by-other-cause-during-call")
			} else if !issued && a.TRet >= a.TInv+to-time.Millisecond {
				// the call's own deadline had passed before it reached the deletion (the stopping
				// goroutine itself was stalled): same reasoning as for a slow store
				d.skip("C09", "deletekey-deadline-exhausted-by-stalls")
			} else if a.OwnerAtInv {
				if !issued {
					d.h.violate("C09", "deletekey-no-delete-issued", fmt.Sprintf("i%d StopWithContext(DeleteKey) by the record's owner returned at %v without issuing a delete", a.Inst, a.TRet), a.TRet, a.SRet)
				}
				for _, v := range d.store.All {
					if v.Key == in.cfg.Group && v.Op == opPut && v.Writer == a.Inst && v.Gen == a.Gen {
						e, _ := v.EndAt(d.store.MaxAge)
						if v.At <= a.TRet && (e < 0 || e > a.TRet) {
							d.h.violate("C09", "deletekey-record-still-live-at-return", fmt.Sprintf("i%d StopWithContext(DeleteKey) returned at %v but its record seq=%d is still live", a.Inst, a.TRet, v.Seq), a.TRet, a.SRet)
						}
					}
				}
			}
		}
	}
	// DeleteKey by an instance that no longer led when the call came but still owned the live
	// record - written and refreshed by a term of its own that ended without the record being
	// released: an earlier stop call that gave up (time-out, caller's context), a demotion that
	// leaves the record to run out. "With DeleteKey set and the instance the record's owner, the
	// record is gone when StopWithContext returns."
	for _, a := range d.h.Apis {
		if a.Kind != AStopCtx || !a.Act.DeleteKey || a.TRet < 0 || a.Err != nil || a.WasLeaderAtInv || !a.OwnerAtInv || a.SRet >= d.endStep {
			continue
		}
		in := d.inst(a.Inst)
		alone := true
		for _, b := range d.h.Apis {
			if b != a && b.Inst == a.Inst && b.Gen == a.Gen && (b.Kind == AStop || b.Kind == AStopCtx || b.Kind == AStart) && b.SInv <= a.SRet && (b.TRet < 0 || b.SRet >= a.SInv) {
				alone = false
			}
		}
		// the record the instance owned when the call came: one that a term of its own had led on
		// (its write acknowledged and the promotion made before the call; the other case - an
		// acquisition still in flight - is the next clause's)
		var rec *Version
		for _, v := range d.store.All {
			if v.Key == in.cfg.Group && v.Op == opPut && v.Writer == a.Inst && v.Gen == a.Gen {
				e, _ := v.EndAt(d.store.MaxAge)
				if v.At <= a.TInv && (e < 0 || e > a.TInv) {
					rec = v
				}
			}
		}
		if rec == nil || !alone {
			continue
		}
		led := false
		how := ""
		for _, x := range d.terms() {
			if x.Inst == a.Inst && x.Gen == a.Gen && x.Token != "" && rec.P.OK && rec.P.Token == x.Token && x.Fall != nil && x.SEnd < a.SInv {
				led = true
				switch {
				case !stopStack(x.EndStack):
					how = "after-demotion"
				case d.stopFailed(x.Fall, d.obj(a.Inst, a.Gen)):
					how = "after-stop-call-that-gave-up"
				default:
					how = "after-stop"
				}
			}
		}
		if !led {
			continue
		}
		d.judgedInc("C09")
		faulted := false
		to := stopBudget(a.Act)
		for _, op := range d.h.Ops {
			if op.Inst == a.Inst && op.Gen == a.Gen && (op.Kind == "delete" || op.Kind == "get") && strings.HasPrefix(op.Caller, "StopWithContext") && op.SInvoke >= a.SInv && op.SInvoke <= a.SRet {
				if op.Fault != "" || !op.Applied || op.TRet < 0 || op.TRet > a.TInv+to-time.Millisecond {
					faulted = true
				}
			}
		}
		if faulted || a.TRet >= a.TInv+to-time.Millisecond {
			d.skip("C09", "deletekey-delete-faulted")
			continue
		}
		// still there when the call returned (that version, or a later refresh of the same term
		// that was in flight and applied meanwhile)
		for _, v := range d.store.All {
			if v.Key == in.cfg.Group && v.Op == opPut && v.Writer == a.Inst && v.Gen == a.Gen && v.P.OK && v.P.Token == rec.P.Token {
				e, _ := v.EndAt(d.store.MaxAge)
				if v.At <= a.TRet && (e < 0 || e > a.TRet) {
					d.h.violate("C09", "deletekey-record-of-ended-term-left-behind/"+how, fmt.Sprintf("i%d StopWithContext(DeleteKey) [%v,%v] returned success; the instance did not lead any more (its term had been ended at an earlier moment without releasing the record) but still owned the live record (its id and that term's token): seq=%d is still live", a.Inst, a.TInv, a.TRet, v.Seq), a.TRet, a.SRet)
					break
				}
			}
		}
	}
	// DeleteKey by an instance that was not (yet) leader when the call came, but whose acquisition
	// wrote the record while the call was under way and was told so before the call returned: the
	// instance is the record's owner, the call succeeded, the record must be gone.
	for _, a := range d.h.Apis {
		if a.Kind != AStopCtx || !a.Act.DeleteKey || a.TRet < 0 || a.Err != nil || a.WasLeaderAtInv || a.SRet >= d.endStep {
			continue
		}
		in := d.inst(a.Inst)
		alone, restarted := true, false
		for _, b := range d.h.Apis {
			if b != a && b.Inst == a.Inst && b.Gen == a.Gen && (b.Kind == AStop || b.Kind == AStopCtx) && b.SInv <= a.SRet && (b.TRet < 0 || b.SRet >= a.SInv) {
				alone = false
			}
			if b.Inst == a.Inst && b.Gen == a.Gen && (b.Kind == AStart || b.Kind == ARestart) && b.SInv >= a.SInv && b.SInv <= a.SRet {
				restarted = true
			}
		}
		if !alone || restarted || in == nil {
			continue
		}
		// (as for a leader's shutdown: not if the deletion was hit by a fault, or the call's own
		// deadline had passed before it got to the deletion)
		to := stopBudget(a.Act)
		issued, faulted := false, false
		for _, op := range d.h.Ops {
			if op.Inst == a.Inst && op.Gen == a.Gen && op.Kind == "delete" && op.SInvoke >= a.SInv && op.SInvoke <= a.SRet {
				issued = true
				if op.Fault != "" || !op.Applied || op.TRet < 0 || op.TRet > a.TInv+to-time.Millisecond {
					faulted = true
				}
			}
			// (the release reads the record back before it deletes it: a read that the store did not
			// answer in time is the same excuse)
			if op.Inst == a.Inst && op.Gen == a.Gen && op.Kind == "get" && strings.HasPrefix(op.Caller, "StopWithContext") && op.SInvoke >= a.SInv && op.SInvoke <= a.SRet {
				if op.Fault != "" || !op.Applied || op.TRet < 0 || op.Err != nil || op.TRet > a.TInv+to-time.Millisecond {
					faulted = true
				}
			}
		}
		if faulted || (!issued && a.TRet >= a.TInv+to-time.Millisecond) {
			continue
		}
		for _, op := range d.h.Ops {
			if op.Inst != a.Inst || op.Gen != a.Gen || op.New == nil || !op.OK || (op.Kind != "create" && op.Kind != "update") {
				continue
			}
			if strings.HasPrefix(op.Caller, "heartbeatLoop") {
				// (a refresh of a leader that was demoted by another cause at the very instant of the
				// stop call - a grace period expiring, say - and lands afterwards: whether the call
				// still finds a leader was decided by the scheduler, as in the clause above; how long a
				// demoted instance's last refresh keeps the record alive is the TTL, C06's bound)
				continue
			}
			// written by an operation that was in flight when the call came, acknowledged (in time)
			// before the call returned
			if op.SInvoke > a.SInv || op.TRet < 0 || op.SRet > a.SRet || op.Err != nil || op.Fault != "" {
				continue
			}
			if op.SRet < a.SInv {
				continue
			}
			v := op.New
			e, _ := v.EndAt(d.store.MaxAge)
			if e >= 0 && e <= a.TRet {
				continue
			}
			d.judgedInc("C09")
			d.h.violate("C09", "deletekey-own-record-left-behind/"+callerSig(op.Caller), fmt.Sprintf("i%d: its %s (#%d) wrote the record seq=%d at %v and was acknowledged at %v, inside a StopWithContext(DeleteKey) call [%v,%v] that returned success: the instance owns the record and it is still live", a.Inst, op.Kind, op.ID, v.Seq, op.TApply, op.TRet, a.TInv, a.TRet), a.TRet, a.SRet)
		}
	}
	// leftover library goroutines once everything in flight has returned
	if len(d.leftover) > 0 {
		cnt := map[string]int{}
		for _, l := range d.leftover {
			cnt[l]++
		}
		names := make([]string, 0, len(cnt))
		for n := range cnt {
			names = append(names, n)
		}
		sort.Strings(names)
		for _, n := range names {
			d.h.violate("C09", "goroutine-left-after-stop/"+n, fmt.Sprintf("%d goroutine(s) still in %s after every election was stopped and all operations returned", cnt[n], n), d.lastNow, d.step)
		}
	}
}
