package sim

import (
	"encoding/json"
	"fmt"
	"sort"
	"strings"
	"time"
)

// ---------- C03: a deposed or cut-off leader stops within a bounded time ----------

func hbTimeout(h time.Duration) time.Duration {
	t := h / 2
	if t < time.Second {
		t = time.Second
	}
	return t
}

// stallIn sums the virtual stalls injected at yield sites of an instance in a window.
func (d *Driver) stallIn(inst int, a, b time.Duration) time.Duration {
	// every stall that overlaps the window; the window is extended by the stalls found (a goroutine
	// that was held up for 1.2s at one site and then parked at the next one is late by both), until
	// nothing more is found
	var s time.Duration
	for i := 0; i < 64; i++ {
		var n time.Duration
		for _, st := range d.h.Stalls {
			if st.Inst == inst && st.T <= b+s && st.T+st.D >= a {
				n += st.D
			}
		}
		if n == s {
			break
		}
		s = n
	}
	return s
}

// stopInvokedBefore: a stop call (or crash) of the object was invoked at or before t.
func (d *Driver) stopInvokedBefore(inst, gen int, t time.Duration) bool {
	for _, a := range d.h.Apis {
		if a.Inst == inst && (a.Gen == gen || gen < 0) && (a.Kind == AStop || a.Kind == AStopCtx) && a.TInv <= t {
			return true
		}
	}
	return false
}

// startCtxCancelledBefore: the application cancelled the context it gave to Start of that object
// at or before t (the run's loops end; how fast the claim is given up then is C19's clause).
func (d *Driver) startCtxCancelledBefore(inst, gen int, t time.Duration) bool {
	for _, a := range d.h.Apis {
		if a.Inst == inst && (a.Gen == gen || gen < 0) && a.Kind == ACancelStart && a.TInv <= t {
			return true
		}
	}
	return false
}

// expectsOnDemote: the object had an OnDemote callback registered when its claim fell at step.
func (d *Driver) expectsOnDemote(inst, gen int, step uint64) bool {
	o := d.obj(inst, gen)
	return o != nil && !o.in.cfg.NoCallbacks && o.demoteReg && o.demoteRegStep < step
}

func (d *Driver) demoteCbAfter(inst, gen int, step uint64) *CbEvt {
	for _, c := range d.h.Cbs {
		if c.Inst == inst && c.Gen == gen && c.Kind == "demote_enter" && c.Step >= step {
			return c
		}
	}
	return nil
}

func (d *Driver) judgeC03() {
	d.judgeC03as("C03")
	d.judgeC03numeric("C03")
}

// judgeC03as runs the C03 decision procedure and files verdicts under prop (C13 reuses it
// for "a leader whose record was tampered with is demoted as in C03").
func (d *Driver) judgeC03as(prop string) {
	p := d.plan
	T := hbTimeout(p.H)
	for _, t := range d.terms() {
		if t.Obj == nil || t.Obj.dead {
			continue
		}
		in := d.inst(t.Inst)
		termEnd := t.End
		if termEnd < 0 {
			termEnd = d.endAt
		}
		// heartbeat attempts of this term
		var hb []*Op
		for _, op := range d.h.Ops {
			if op.Inst == t.Inst && op.Gen == t.Gen && op.Kind == "update" && strings.HasPrefix(op.Caller, "heartbeatLoop") && op.SInvoke >= t.SStart && (t.Fall == nil || op.SInvoke <= t.SEnd) {
				hb = append(hb, op)
			}
		}
		completion := func(op *Op) time.Duration {
			c := op.TInvoke + T
			if op.TRet >= 0 && op.TRet < c {
				c = op.TRet
			}
			return c
		}
		class := func(op *Op) string {
			inTime := op.TRet >= 0 && op.TRet-op.TInvoke < T
			if op.Applied && inTime && op.Err == nil {
				return "ok"
			}
			if op.Applied && !op.OK && inTime && op.Err != nil && op.Err == op.SrvErr {
				return "conflict" // the server's verdict reached the caller in time
			}
			return "unreach"
		}
		// ---- clause 1: record replaced, deleted or expired underneath
		var tL time.Duration = -1
		var cause string
		for _, v := range d.store.All {
			if v.Key != in.cfg.Group || v.Op != opPut || !v.P.OK || v.P.ID != in.cfg.ID || v.P.Token != t.Token {
				continue
			}
			e, c := v.EndAt(d.store.MaxAge)
			if e < 0 || e > d.endAt {
				continue
			}
			// ended by a version of the same term (a refresh) => not a loss
			lost := true
			if c == "replaced" {
				for _, w := range d.store.All {
					if w.Key == v.Key && w.At == e && w.Seq > v.Seq && w.Op == opPut && w.P.OK && w.P.ID == in.cfg.ID && w.P.Token == t.Token {
						lost = false
					}
				}
			}
			// (the record may be lost between the application of the acquisition and the promotion:
			// the term then starts over a record that is already gone)
			if lost && (tL < 0 || e < tL) {
				tL, cause = e, c
			}
		}
		if tL >= 0 && tL < termEnd && !d.stopInvokedBefore(t.Inst, t.Gen, tL) {
			// first attempt applied after the loss
			var a1 *Op
			for _, op := range hb {
				if op.Applied && op.TApply > tL {
					a1 = op
					break
				}
			}
			// any attempt that was invoked after the loss but never reached the store comes first?
			mixed := false
			for _, op := range hb {
				if a1 != nil && op.SInvoke < a1.SInvoke && completion(op) > tL && class(op) == "unreach" {
					mixed = true
				}
			}
			if a1 != nil && class(a1) == "conflict" && !mixed {
				deadline := a1.TRet
				slack := d.stallIn(t.Inst, a1.TRet, a1.TRet+time.Second) + time.Millisecond
				if !d.stopInvokedBefore(t.Inst, t.Gen, deadline+slack) && deadline+slack < d.endAt {
					d.judgedInc(prop)
					fallT := t.End
					if t.Fall == nil || fallT > deadline+slack {
						when := "never"
						if t.Fall != nil {
							when = fmt.Sprintf("at %v", fallT)
						}
						d.h.violate(prop, "still-leader-after-next-heartbeat/record-"+cause+"/"+errClass(a1.SrvErr),
							fmt.Sprintf("i%d.%d: its record was %s at %v; its next heartbeat attempt (#%d) got the verdict %q at %v, but it stopped claiming leadership %s", t.Inst, t.Gen, cause, tL, a1.ID, errStr(a1.SrvErr), a1.TRet, when), deadline, a1.SRet)
					} else if cb := d.demoteCbAfter(t.Inst, t.Gen, t.SEnd); !stopStack(t.EndStack) && d.expectsOnDemote(t.Inst, t.Gen, t.SEnd) && (cb == nil || cb.T > deadline+slack+d.stallIn(t.Inst, deadline, cb.T)) {
						d.h.violate(prop, "ondemote-late-after-record-loss/record-"+cause, fmt.Sprintf("i%d.%d lost its record at %v, claim cleared at %v, OnDemote not run by %v", t.Inst, t.Gen, tL, fallT, deadline), deadline, a1.SRet)
					}
					base := tL
					if t.Start > base {
						base = t.Start // the first heartbeat comes one interval after the promotion
					}
					if a1.TRet > base+p.H+2*T+d.stallIn(t.Inst, tL, a1.TRet)+time.Millisecond {
						d.h.violate(prop, "next-heartbeat-later-than-H+2T/record-"+cause, fmt.Sprintf("i%d.%d: record %s at %v but the next heartbeat attempt completed only at %v (> H + 2 time-outs)", t.Inst, t.Gen, cause, tL, a1.TRet), a1.TRet, a1.SRet)
					}
				}
			} else if a1 != nil && class(a1) == "ok" && cause == "replaced" && a1.PrevLive != nil && !(a1.PrevLive.Writer == t.Inst && a1.PrevLive.Gen == t.Gen) {
				// the record was replaced by somebody else and the instance's next refresh went
				// through all the same (it presented the other party's revision): the instance goes
				// on leading over a record that it has taken back by accident
				d.judgedInc(prop)
				d.h.violate(prop, "refresh-succeeded-after-record-replaced", fmt.Sprintf("i%d.%d: its record was replaced at %v by seq=%d (written by i%d); its next heartbeat attempt (#%d) overwrote that record at %v and it goes on reporting leadership", t.Inst, t.Gen, tL, a1.PrevLive.Seq, a1.PrevLive.Writer, a1.ID, a1.TApply), a1.TApply, a1.SApply)
			} else if noAttempt := func() bool {
				// no heartbeat attempt at all was issued after the loss (none that reached the store,
				// none that was held up on its way): the numeric form of the clause - the instance has
				// stopped claiming one heartbeat interval and two operation time-outs after the change
				if a1 != nil || in.cfg.HasHealth {
					return false
				}
				for _, op := range hb {
					if op.TInvoke > tL || completion(op) > tL {
						return false
					}
				}
				return true
			}(); noAttempt {
				base := tL
				if t.Start > base {
					base = t.Start
				}
				deadline := base + p.H + 2*T
				deadline += d.stallIn(t.Inst, base, deadline) + time.Millisecond
				if !d.stopInvokedBefore(t.Inst, t.Gen, deadline) && deadline < d.endAt && !d.startCtxCancelledBefore(t.Inst, t.Gen, deadline) {
					d.judgedInc(prop)
					if t.Fall == nil || t.End > deadline {
						d.h.violate(prop, "no-heartbeat-attempt-within-H+2T-after-record-loss/record-"+cause,
							fmt.Sprintf("i%d.%d: its record was %s at %v (term from %v); no heartbeat attempt was issued afterwards and it still claimed leadership at %v (H + 2 time-outs later)", t.Inst, t.Gen, cause, tL, t.Start, deadline), deadline, 0)
					}
				} else {
					d.skip(prop, "clause1-no-attempt-not-judged")
				}
			} else {
				d.skip(prop, "clause1-mixed-or-no-verdict")
			}
		}
		// ---- clause 2: three consecutive failed or timed-out refreshes
		var lastOK *Op
		for _, op := range d.h.Ops {
			// the acquisition that started the term
			if op.Inst == t.Inst && op.Gen == t.Gen && (op.Kind == "create" || op.Kind == "update") && op.New != nil && op.New.P.Token == t.Token && op.SRet <= t.SStart && op.Err == nil {
				lastOK = op
			}
		}
		run := 0
		for _, op := range hb {
			switch class(op) {
			case "ok":
				lastOK, run = op, 0
			case "conflict":
				run = -1000 // clause 1 territory
			default:
				run++
			}
			if run == 3 {
				f3 := completion(op)
				if lastOK == nil || d.stopInvokedBefore(t.Inst, t.Gen, f3+time.Millisecond) || f3+time.Millisecond >= d.endAt {
					break
				}
				slack := d.stallIn(t.Inst, op.TInvoke, f3+time.Second) + time.Millisecond
				d.judgedInc(prop)
				if t.Fall == nil || t.End > f3+slack {
					when := "never"
					if t.Fall != nil {
						when = fmt.Sprintf("at %v", t.End)
					}
					d.h.violate(prop, "still-leader-after-third-failed-heartbeat/"+faultClass(op),
						fmt.Sprintf("i%d.%d: three consecutive refreshes failed (third, #%d, completed at %v) but it stopped claiming leadership %s", t.Inst, t.Gen, op.ID, f3, when), f3, op.SRet)
				} else if cb := d.demoteCbAfter(t.Inst, t.Gen, t.SEnd); !stopStack(t.EndStack) && d.expectsOnDemote(t.Inst, t.Gen, t.SEnd) && (cb == nil || cb.T > f3+slack+d.stallIn(t.Inst, f3, cb.T)) {
					// (a falling edge made by a stop call that overtook the stalled heartbeat goroutine:
					// when that call runs OnDemote is C09's business)
					d.h.violate(prop, "ondemote-late-after-third-failed-heartbeat", fmt.Sprintf("i%d.%d OnDemote not run by %v", t.Inst, t.Gen, f3), f3, op.SRet)
				}
				// S: start of the last successful refresh; for a term without one, the start of the term
				// (the heartbeat ticker starts when the acquisition has returned)
				s0 := lastOK.TInvoke
				if lastOK.Kind == "create" || !strings.HasPrefix(lastOK.Caller, "heartbeatLoop") {
					s0 = t.Start
				}
				// the numeric form presumes that the successful refresh itself completed within one
				// heartbeat interval (otherwise the next attempt cannot start at S+H)
				okFast := lastOK.TRet >= 0 && lastOK.TRet-lastOK.TInvoke <= p.H
				if lastOK.Kind == "create" || !strings.HasPrefix(lastOK.Caller, "heartbeatLoop") {
					okFast = true
				}
				if !okFast {
					d.skip(prop, "clause2-numeric-slow-last-success")
				} else if f3 > s0+3*p.H+3*T+d.stallIn(t.Inst, s0, f3)+time.Millisecond {
					d.h.violate(prop, "third-failure-later-than-3H+3T", fmt.Sprintf("i%d.%d: last successful refresh started at %v, third failed attempt completed at %v", t.Inst, t.Gen, s0, f3), f3, op.SRet)
				}
				break
			}
		}
	}
}

// judgeC03numeric: clause 2 in its numeric form, independent of how many attempts the library
// chose to issue: if from the start S of a successful refresh (itself completed within H) on
// the store is unreachable for the instance's refreshes - a fault window of the plan covers
// every moment from the next tick to S+3H+3T - the instance must have stopped claiming
// leadership by S + 3H + 3T.
func (d *Driver) judgeC03numeric(prop string) {
	p := d.plan
	T := hbTimeout(p.H)
	for _, t := range d.terms() {
		if t.Obj == nil || t.Obj.dead {
			continue
		}
		var lastOK *Op
		for _, op := range d.h.Ops {
			if op.Inst != t.Inst || op.Gen != t.Gen || op.Kind != "update" || !strings.HasPrefix(op.Caller, "heartbeatLoop") || op.SInvoke < t.SStart {
				continue
			}
			if t.Fall != nil && op.SInvoke > t.SEnd {
				break
			}
			if op.Applied && op.OK && op.Err == nil && op.TRet >= 0 && op.TRet-op.TInvoke < T {
				lastOK = op // the last refresh the library saw succeed
			}
		}
		if lastOK == nil || lastOK.TRet-lastOK.TInvoke > p.H {
			continue // the numeric form presumes the successful refresh completed within one interval
		}
		s0 := lastOK.TInvoke
		dl := s0 + 3*p.H + 3*T
		if dl+time.Second >= d.endAt {
			continue
		}
		// a window fault that makes every refresh from the next tick on fail
		covered := false
		for i := range p.Faults {
			f := &p.Faults[i]
			switch f.Kind {
			case FHang, FDropReq, FError, FPartition, FDropResp:
			default:
				continue
			}
			if f.OpN > 0 || (f.Prob > 0 && f.Prob < 1) || (f.Inst >= 0 && f.Inst != t.Inst) || (f.Op != "" && f.Op != "update") {
				continue
			}
			if f.From <= s0+p.H && f.From > lastOK.TApply && (f.To == 0 || f.To >= dl) {
				covered = true
			}
		}
		if !covered || d.stopInvokedBefore(t.Inst, t.Gen, dl+time.Millisecond) {
			continue
		}
		d.judgedInc(prop)
		slack := d.stallIn(t.Inst, s0, dl+time.Second) + time.Millisecond
		if t.Fall == nil || t.End > dl+slack {
			when := "never"
			if t.Fall != nil {
				when = fmt.Sprintf("at %v", t.End)
			}
			d.h.violate(prop, "no-demotion-within-3H+3T-of-last-successful-refresh", fmt.Sprintf("i%d.%d: last successful refresh started at %v, store unreachable for its refreshes from then on; must stop claiming leadership by %v (3H+3T) but did so %s", t.Inst, t.Gen, s0, dl, when), dl, 0)
		}
	}
}

func errClass(e error) string {
	if e == nil {
		return "nil"
	}
	s := e.Error()
	switch {
	case strings.Contains(s, "wrong last sequence"):
		return "wrong-last-sequence"
	case strings.Contains(s, "revision mismatch"):
		return "revision-mismatch"
	case strings.Contains(s, "not found"):
		return "not-found"
	}
	return "other"
}

func faultClass(op *Op) string {
	if op.Fault != "" {
		return strings.SplitN(op.Fault, ":", 2)[0]
	}
	return "slow"
}

// ---------- C12: health-based demotion at exactly the configured count ----------

func (d *Driver) judgeC12() {
	type item struct {
		ord uint64
		h   *HealthEvt
		c   *ClaimEvt
	}
	per := map[[2]int][]item{}
	for _, h := range d.h.Health {
		k := [2]int{h.Inst, h.Gen}
		per[k] = append(per[k], item{ord: h.Ord, h: h})
	}
	for _, c := range d.h.Claims {
		if c.Edge {
			k := [2]int{c.Inst, c.Gen}
			per[k] = append(per[k], item{ord: c.Ord, c: c})
		}
	}
	for _, in := range d.insts {
		if !in.cfg.HasHealth {
			continue
		}
		m := in.cfg.MaxHealth
		if m <= 0 {
			m = 3
		}
		for _, o := range in.objs {
			if o.dead {
				continue
			}
			items := per[[2]int{in.idx, o.gen}]
			// insertion sort by ord (the two lists are each ordered)
			for i := 1; i < len(items); i++ {
				for j := i; j > 0 && items[j].ord < items[j-1].ord; j-- {
					items[j], items[j-1] = items[j-1], items[j]
				}
			}
			count := 0
			var due *HealthEvt // the health result after which a health demotion must follow
			for _, it := range items {
				if it.h != nil {
					h := it.h
					if h.Step >= d.endStep {
						break
					}
					d.judgedInc("C12")
					if due != nil {
						d.h.violate("C12", fmt.Sprintf("no-demotion-at-threshold/m=%d", m), fmt.Sprintf("i%d.%d: %d consecutive unhealthy results (threshold %d) at %v, but no health demotion before the next check at %v", in.idx, o.gen, m, m, due.T, h.T), due.T, due.Step)
						due = nil
						count = 0
					}
					if h.Deadline < 0 || h.Deadline > 100*time.Millisecond {
						d.h.violate("C12", "health-context-deadline", fmt.Sprintf("i%d.%d health check at %v got a context deadline of %v (must expire within 100ms)", in.idx, o.gen, h.T, h.Deadline), h.T, h.Step)
					}
					if h.Result == 'h' || h.Result == 'S' || h.Result == 'B' {
						count = 0
					} else {
						count++
						if count >= m {
							due = h
						}
					}
					continue
				}
				c := it.c
				if c.Val {
					count = 0 // a new term restarts the count
					due = nil
					continue
				}
				byHealth := strings.Contains(c.Stack, "handleHealthCheckFailure")
				if byHealth {
					if due == nil {
						d.h.violate("C12", fmt.Sprintf("health-demotion-below-threshold/count=%d/m=%d", count, m), fmt.Sprintf("i%d.%d demoted by the health mechanism at %v after %d consecutive unhealthy results of this term (threshold %d)", in.idx, o.gen, c.T, count, m), c.T, c.Step)
					} else if d.expectsOnDemote(in.idx, o.gen, c.Step) {
						if cb := d.demoteCbAfter(in.idx, o.gen, c.Step); cb == nil || cb.T > c.T+d.stallIn(in.idx, c.T, cb.T) {
							d.h.violate("C12", "health-demotion-without-ondemote", fmt.Sprintf("i%d.%d demoted by the health mechanism at %v but OnDemote did not run", in.idx, o.gen, c.T), c.T, c.Step)
						}
					}
				}
				due = nil
				count = 0
			}
			grace := 200 * time.Millisecond
			if due != nil && due.Result == 'b' {
				grace += in.cfg.HealthBlock // the verdict itself comes that much later
			}
			if due != nil && d.endAt-due.T > grace && !d.stopInvokedBefore(in.idx, o.gen, due.T+grace) {
				d.h.violate("C12", fmt.Sprintf("no-demotion-at-threshold/m=%d", m), fmt.Sprintf("i%d.%d: threshold reached at %v, never demoted", in.idx, o.gen, due.T), due.T, due.Step)
			}
		}
	}
	// after a health demotion the instance continues as a follower and can be re-elected: with a
	// script that ends healthy and a fault-free tail the group has a leader at the end of the plan
	if d.plan.Tail > 0 {
		var lastBad time.Duration = -1
		for _, h := range d.h.Health {
			if h.Result != 'h' && h.Result != 'S' && h.Result != 'B' && h.T > lastBad {
				lastBad = h.T
			}
			if h.Result == 'b' || h.Result == 'B' {
				// a probe that blocks holds up the refreshes as well: the record may lapse meanwhile
				if in := d.inst(h.Inst); in != nil && h.T+in.cfg.HealthBlock > lastBad {
					lastBad = h.T + in.cfg.HealthBlock
				}
			}
		}
		// judged only when the scripts have been healthy for longer than a vacancy can last
		if d.endAt-lastBad >= d.plan.TTL+time.Second+d.plan.Store.Req[1]+d.plan.Store.Resp[1] {
			d.tailLeaderCheck("C12")
		} else {
			d.skip("C12", "tail-not-healthy-long-enough")
		}
	}
}

// tailLeaderCheck: at the end of the fault-free tail some running instance of every group
// with a running, non-stopped instance claims leadership.
func (d *Driver) tailLeaderCheck(prop string) {
	groups := map[string]bool{}
	for _, in := range d.insts {
		if in.running && !in.crashed && in.cur != nil && !in.cur.dead {
			groups[in.cfg.Group] = true
		}
	}
	for g := range groups {
		found := false
		for _, c := range d.endLeaders {
			if d.insts[c].cfg.Group == g {
				found = true
			}
		}
		if !found {
			// "never without a claiming leader for longer than the TTL plus the bound": a leader
			// that lost its record inside the tail (heartbeats held up by scheduler stalls for a
			// whole TTL) leaves a vacancy that may still be young when the plan ends
			last := time.Duration(-1)
			for _, x := range d.terms() {
				if d.insts[x.Inst].cfg.Group == g && x.Fall != nil && x.End > last {
					last = x.End
				}
			}
			if last >= 0 && d.endAt-last <= d.plan.TTL+600*time.Millisecond+2*(d.plan.Store.Req[1]+d.plan.Store.Resp[1])+4*d.plan.Sched.StallMax {
				d.skip(prop, "tail-vacancy-younger-than-ttl-plus-bound")
				continue
			}
			var who []string
			for _, in := range d.insts {
				if in.cfg.Group == g && in.running {
					who = append(who, in.cfg.ID)
				}
			}
			d.h.violate(prop, "no-leader-at-end-of-fault-free-tail", fmt.Sprintf("group %s has running instances %v but nobody claims leadership after a fault-free tail of %v", g, who, d.plan.Tail), d.endAt, d.endStep)
		}
	}
}

// ---------- C13: arbitrary record contents never crash, hang or promote ----------

func (d *Driver) judgeC13() {
	p := d.plan
	// (panics, deadlocks and stack overflows kill the worker and are reported by the orchestrator;
	// unbounded recursion that has not yet overflowed is reported from the stack depth in judge())
	// spinning: store operations per instance per virtual second
	capPerSec := 50 + int(20*time.Second/p.H)
	for _, in := range d.insts {
		var times []time.Duration
		for _, op := range d.h.Ops {
			if op.Inst == in.idx {
				times = append(times, op.TInvoke)
			}
		}
		j := 0
		for i := range times {
			for times[i]-times[j] > time.Second {
				j++
			}
			if i-j+1 > capPerSec {
				d.h.violate("C13", "store-operation-storm", fmt.Sprintf("i%d issued %d store operations within one virtual second around %v (cap %d)", in.idx, i-j+1, times[i], capPerSec), times[i], 0)
				break
			}
		}
	}
	// "A leader whose record was tampered with is demoted": its refresh must never succeed against
	// a record that somebody else wrote in the meantime (the revision it presents is its own
	// record's, so the store refuses it; a refresh that goes through has adopted the other party's
	// revision and silently undoes the tampering instead of stepping down)
	for _, op := range d.h.Ops {
		if op.Inst < 0 || !op.Applied || !op.OK || op.Kind != "update" || op.PrevLive == nil || !strings.Contains(op.Caller, "heartbeatLoop") {
			continue
		}
		d.judgedInc("C13")
		if prev := op.PrevLive; !(prev.Writer == op.Inst && prev.Gen == op.Gen) {
			d.h.violate("C13", "refresh-succeeded-over-foreign-record/"+callerSig(op.Caller), fmt.Sprintf("i%d's refresh replaced the live record seq=%d %s written by i%d", op.Inst, prev.Seq, trunc(string(prev.Val), 80), prev.Writer), op.TApply, op.SApply)
		}
	}
	// never promote over a live record somebody else wrote
	for _, c := range d.h.Claims {
		if !c.Edge || !c.Val {
			continue
		}
		o := d.obj(c.Inst, c.Gen)
		if o == nil || o.dead {
			continue
		}
		d.judgedInc("C13")
		// The claim must rest on a successful write of its own (creation over no live record, or a
		// legitimate preemption - C01/C10 judge which) carrying the term's token. A record that is
		// overwritten while that write's acknowledgement is still in flight is a loss the instance
		// cannot know of yet; C03 bounds how long the claim may then stand.
		own := false
		for _, op := range d.h.Ops {
			if op.Inst == c.Inst && op.Gen == c.Gen && (op.Kind == "create" || op.Kind == "update") && op.Applied && op.OK && op.Err == nil &&
				op.SRet <= c.Step && op.New != nil && op.New.P.OK && op.New.P.Token == c.Token && op.New.P.ID == d.inst(c.Inst).cfg.ID && !strings.HasPrefix(op.Caller, "heartbeatLoop") {
				own = true
				// "... other than by legitimate preemption": the write the claim rests on replaced a
				// live, well-formed record of somebody else only if takeover is enabled and the
				// instance's priority is strictly higher than the one stored in that record
				if prev := op.PrevLive; op.Kind == "update" && prev != nil && !(prev.Writer == op.Inst && prev.Gen == op.Gen) && prev.P.OK && malformedPayload(prev.Val) == "" {
					if cfg := d.inst(c.Inst).cfg; !(cfg.Takeover && cfg.Prio > prev.P.Prio) {
						d.h.violate("C13", "promoted-by-illegitimate-replacement/"+callerSig(op.Caller), fmt.Sprintf("i%d.%d (prio %d, takeover %v) claimed leadership at %v on a write that replaced the live record seq=%d %.80q written by i%d", c.Inst, c.Gen, cfg.Prio, cfg.Takeover, c.T, prev.Seq, prev.Val, prev.Writer), c.T, c.Step)
					}
				}
			}
		}
		if !own {
			what := "no live record"
			if c.Live != nil {
				what = fmt.Sprintf("live record seq=%d written by %d: %.60q", c.Live.Seq, c.Live.Writer, c.Live.Val)
			}
			d.h.violate("C13", "promoted-without-own-successful-write/rise-by:"+c.Stack, fmt.Sprintf("i%d.%d claimed leadership at %v (token %s) without a successful create/takeover of its own carrying that token; %s", c.Inst, c.Gen, c.T, short(c.Token), what), c.T, c.Step)
		}
	}
	// a record that is not a leadership payload (not a JSON object, or id/token/priority of the
	// wrong JSON type) names nobody and stores no priority: replacing it is not a preemption
	for _, op := range d.h.Ops {
		if op.Inst < 0 || !op.Applied || !op.OK || op.Kind != "update" || op.PrevLive == nil {
			continue
		}
		prev := op.PrevLive
		if prev.Writer == op.Inst && prev.Gen == op.Gen {
			continue
		}
		if why := malformedPayload(prev.Val); why != "" {
			d.h.violate("C13", "replaced-malformed-record/"+why+"/"+callerSig(op.Caller), fmt.Sprintf("i%d replaced the live record seq=%d %.80q (%s), which it did not write, and may promote itself over it", op.Inst, prev.Seq, prev.Val, why), op.TApply, op.SApply)
		}
	}
	if !d.plan.sameID() {
		// (the time bounds attribute goroutines - and the stalls injected for them - to instances
		// through the InstanceID: not with two election objects under one name)
		d.judgeC03as("C13")
	}
}

// malformedPayload reports why a record value is clearly not a leadership payload ("" if it
// could be one; missing fields are NOT reported: priority is documented as omitted when 0, and
// the statement does not say what a record without an id is).
func malformedPayload(b []byte) string {
	var m map[string]json.RawMessage
	if err := json.Unmarshal(b, &m); err != nil {
		return "not-a-json-object"
	}
	for _, k := range []string{"id", "token"} {
		if raw, ok := m[k]; ok && string(raw) != "null" && (len(raw) == 0 || raw[0] != '"') {
			return "wrong-type-" + k
		}
	}
	if raw, ok := m["priority"]; ok {
		var n int64
		if string(raw) != "null" && json.Unmarshal(raw, &n) != nil {
			return "wrong-type-priority"
		}
	}
	return ""
}

// ---------- C04: fencing-token validation sound and fail-safe ----------

func (d *Driver) judgeC04() {
	terms := d.terms()
	termAt := func(inst, gen int, step uint64) *Term {
		var t *Term
		for _, x := range terms {
			if x.Inst == inst && x.Gen == gen && x.SStart <= step && (x.Fall == nil || x.SEnd > step) {
				t = x
			}
		}
		return t
	}
	for _, a := range d.h.Apis {
		if a.Kind != AValidate && a.Kind != AValidateOD {
			continue
		}
		if a.TRet < 0 {
			continue
		}
		o := d.obj(a.Inst, a.Gen)
		if o == nil || o.dead {
			continue
		}
		in := d.inst(a.Inst)
		d.judgedInc("C04")
		if a.Bool {
			if !a.LeaderAtInv {
				d.h.violate("C04", "true-while-not-leader/"+a.Kind, fmt.Sprintf("i%d %s returned true but the instance did not lead when it was called (%v)", a.Inst, a.Kind, a.TInv), a.TRet, a.SRet)
				continue
			}
			if a.CtxDoneAtInv {
				d.h.violate("C04", "true-with-cancelled-context/"+a.Kind, fmt.Sprintf("i%d %s returned true with a context that was already cancelled", a.Inst, a.Kind), a.TRet, a.SRet)
				continue
			}
			// some moment in [inv, ret] at which the live record had the caller's id and term token
			ok := false
			var seen []string
			for _, iv := range d.liveTimeline(in.cfg.Group) {
				if iv.b <= a.TInv || iv.a > a.TRet {
					continue
				}
				seen = append(seen, fmt.Sprintf("seq=%d %.80q", iv.v.Seq, iv.v.Val))
				if iv.v.P.OK && iv.v.P.ID == in.cfg.ID && iv.v.P.Token == a.TokenAtInv {
					ok = true
				}
				if a.Kind == AValidateOD && iv.v.P.OK && iv.v.P.ID == in.cfg.ID {
					// ValidateTokenOrDemote judges the term that leads when it reads (a term that
					// began during the call is "the caller's current term" from then on): the
					// record held that term's token at a moment of the call at which the term ran
					for _, x := range terms {
						if x.Inst != a.Inst || x.Gen != a.Gen || x.Token == "" || x.Token != iv.v.P.Token {
							continue
						}
						lo, hi := maxDur(maxDur(iv.a, x.Start), a.TInv), a.TRet
						if iv.b < hi {
							hi = iv.b
						}
						if x.Fall != nil && x.End < hi {
							hi = x.End
						}
						if lo <= hi {
							ok = true
						}
					}
				}
			}
			if !ok {
				d.h.violate("C04", "true-without-matching-record/"+a.Kind, fmt.Sprintf("i%d %s returned true over [%v,%v] (term token %s) but the record never held its id and token in that interval; record versions: %v", a.Inst, a.Kind, a.TInv, a.TRet, short(a.TokenAtInv), seen), a.TRet, a.SRet)
			}
			continue
		}
		if a.Kind == AValidateOD && a.LeaderAtInv {
			// false => the instance no longer reports leadership once the call has returned. Judged
			// against every term that was already running when the read's answer reached the caller
			// (a term that begins after the verdict was computed races with the return itself).
			var g *Op
			for _, op := range d.h.Ops {
				if op.Inst == a.Inst && op.Gen == a.Gen && op.Kind == "get" && strings.HasPrefix(op.Caller, "validateToken") && op.SInvoke >= a.SInv && op.TRet >= 0 && op.SRet <= a.SRet {
					// the first such read: the call issues its read at once; with a slow OnDemote the
					// call returns long after, and later reads (of the validation loop, of other
					// validation calls) fall into its window as well
					g = op
					break
				}
			}
			if g != nil {
				for _, x := range terms {
					if x.Inst == a.Inst && x.Gen == a.Gen && x.SStart < g.SRet && (x.Fall == nil || x.End > a.TRet+d.stallIn(a.Inst, g.TRet, a.TRet+time.Second)) {
						d.h.violate("C04", "validate-or-demote-false-but-leader-at-return", fmt.Sprintf("i%d ValidateTokenOrDemote returned false at %v but the instance still reports leadership (term that began at %v, before the read was answered at %v)", a.Inst, a.TRet, x.Start, g.TRet), a.TRet, a.SRet)
						break
					}
				}
			}
		}
		if a.Kind == AValidateOD {
			// false => no longer leader once returned, for the rest of that term; OnDemote ran if it led
			if t := termAt(a.Inst, a.Gen, a.SInv); t != nil && a.LeaderAtInv {
				if t.Fall == nil || t.SEnd > a.SRet {
					d.h.violate("C04", "validate-or-demote-false-but-still-leader", fmt.Sprintf("i%d ValidateTokenOrDemote returned false at %v but the term that began at %v continued", a.Inst, a.TRet, t.Start), a.TRet, a.SRet)
				} else if d.expectsOnDemote(a.Inst, a.Gen, t.SEnd) {
					cb := d.demoteCbAfter(a.Inst, a.Gen, t.SEnd)
					// the call itself ended the term: "if it was leader, the demotion callback has
					// been invoked" when the call returns - not handed to somebody who will get
					// round to it (another goroutine's demotion is that goroutine's to report)
					only := true // (the history does not say which of two overlapping calls made the demotion)
					for _, b := range d.h.Apis {
						if b != a && b.Inst == a.Inst && b.Gen == a.Gen && b.Kind == AValidateOD && b.SInv <= a.SRet && (b.TRet < 0 || b.SRet >= a.SInv) {
							only = false
						}
					}
					if only && t.SEnd >= a.SInv && t.SEnd <= a.SRet && strings.Contains(t.EndStack, "ValidateTokenOrDemote") && (cb == nil || cb.Step > a.SRet) && !d.stopFailed(t.Fall, o) {
						d.h.violate("C04", "validate-or-demote-returned-before-its-ondemote", fmt.Sprintf("i%d ValidateTokenOrDemote ended the term at %v and returned false at %v, but OnDemote had not been invoked by then", a.Inst, t.End, a.TRet), a.TRet, a.SRet)
						continue
					}
					// by the next quiescent point after the return: same virtual instant, stalls allowed for
					if (cb == nil || cb.T > a.TRet+d.stallIn(a.Inst, t.End, cb.T)) && !d.stopFailed(t.Fall, o) && !stopStack(t.EndStack) {
						d.h.violate("C04", "validate-or-demote-false-without-ondemote", fmt.Sprintf("i%d ValidateTokenOrDemote returned false at %v; leadership ended at %v but OnDemote had not run", a.Inst, a.TRet, t.End), a.TRet, a.SRet)
					}
				}
			}
		}
	}
}

// ---------- C11: disconnect grace period and reconnect verification ----------

func graceOf(p *Plan, c InstCfg) time.Duration {
	if c.Grace > 0 {
		return c.Grace
	}
	g := 3 * p.H
	if g < 5*time.Second {
		g = 5 * time.Second
	}
	return g
}

func (d *Driver) judgeC11() {
	p := d.plan
	terms := d.terms()
	for _, in := range d.insts {
		if !in.cfg.Monitor {
			continue
		}
		G := graceOf(p, in.cfg)
		for _, o := range in.objs {
			if o.dead {
				continue
			}
			var notifs []*NotifEvt
			for _, n := range d.h.Notifs {
				if n.Inst == in.idx && n.Gen == o.gen {
					notifs = append(notifs, n)
				}
			}
			var myTerms []*Term
			for _, t := range terms {
				if t.Inst == in.idx && t.Gen == o.gen {
					myTerms = append(myTerms, t)
				}
			}
			// (a) never before G since the latest disconnect
			for _, t := range myTerms {
				if t.Fall == nil || !strings.Contains(t.EndStack, "handleGracePeriodExpired") {
					continue
				}
				d.judgedInc("C11")
				// the expiry handler run that demoted: the latest one that started before the falling edge
				var expOrd uint64
				for _, x := range d.h.Expiries {
					if x.Ord < t.Fall.Ord {
						expOrd = x.Ord
					}
				}
				var td time.Duration = -1
				for _, n := range notifs {
					// the latest disconnect notification whose handler had returned when that expiry
					// handler started (a notification that arrives while the expiry is already under way
					// races with it; no implementation can order them)
					if n.Kind != ADisconnect {
						continue
					}
					if expOrd > 0 {
						if n.DoneOrd > 0 && n.DoneOrd < expOrd {
							td = n.T
						}
					} else if n.T < t.End {
						td = n.T
					}
				}
				if td < 0 {
					d.h.violate("C11", "grace-demotion-without-disconnect", fmt.Sprintf("i%d.%d demoted by the grace mechanism at %v without any disconnect notification", in.idx, o.gen, t.End), t.End, t.SEnd)
				} else if t.End < td+G {
					d.h.violate("C11", "grace-demotion-too-early", fmt.Sprintf("i%d.%d demoted by the grace mechanism at %v, only %v after the latest disconnect notification at %v (grace period %v)", in.idx, o.gen, t.End, t.End-td, td, G), t.End, t.SEnd)
				} else if expOrd > 0 {
					// "... if no reconnect notification arrived": a reconnect notification after that
					// disconnect whose handler had returned before the expiry handler started
					for _, n := range notifs {
						if n.Kind == AReconnect && n.T > td && n.DoneOrd > 0 && n.DoneOrd < expOrd {
							d.h.violate("C11", "grace-demotion-despite-reconnect", fmt.Sprintf("i%d.%d demoted by the grace mechanism at %v although a reconnect notification had arrived at %v, after the latest disconnect notification at %v", in.idx, o.gen, t.End, n.T, td), t.End, t.SEnd)
							break
						}
					}
				}
			}
			// (b) exactly at td+G when it led continuously, no reconnect arrived and no stop was invoked
			for i, n := range notifs {
				if n.Kind != ADisconnect {
					continue
				}
				// latest disconnect of its burst: no further disconnect/reconnect within (n.T, n.T+G]
				later := false
				for _, m := range notifs[i+1:] {
					if (m.Kind == ADisconnect || m.Kind == AReconnect) && m.T <= n.T+G {
						later = true
					}
				}
				if later || n.T+G+time.Millisecond >= d.endAt {
					continue
				}
				var t *Term
				for _, x := range myTerms {
					if x.SStart < n.Step && (x.Fall == nil || x.SEnd > n.Step) {
						t = x
					}
				}
				if t != nil && t.Fall != nil && n.DoneStep > 0 && t.SEnd <= n.DoneStep {
					// the claim fell between the injection of the notification and the end of its handler
					// (another cause at the very instant): the handler may have found no leader
					t = nil
				}
				if t == nil {
					continue // did not lead when the notification arrived
				}
				if d.stopInvokedBefore(in.idx, o.gen, n.T+G+time.Millisecond) {
					continue
				}
				d.judgedInc("C11")
				if t.Fall != nil && t.End < n.T+G {
					// lost leadership earlier for another reason (judged by (a) if it was the grace
					// mechanism). "... and it still leads": if the same object leads again when the grace
					// period ends - it lost the record and re-acquired during the outage - that term ends then
					var t2 *Term
					for _, x := range myTerms {
						if x.Start > t.End && x.Start < n.T+G && (x.Fall == nil || x.End >= n.T+G) {
							t2 = x
						}
					}
					if t2 == nil {
						continue
					}
					slack := d.stallIn(in.idx, n.T, n.T+G+time.Second)
					if t2.Fall == nil || t2.End > n.T+G+slack {
						when := "never"
						if t2.Fall != nil {
							when = fmt.Sprintf("at %v (%s)", t2.End, t2.EndStack)
						}
						d.h.violate("C11", "no-demotion-at-grace-expiry/leadership-lost-and-regained-during-outage", fmt.Sprintf("i%d.%d: disconnect notification at %v while leading, no reconnect; it lost leadership at %v (%s), led again from %v and still led when the grace period ended at %v, but was demoted %s", in.idx, o.gen, n.T, t.End, t.EndStack, t2.Start, n.T+G, when), n.T+G, 0)
					}
					continue
				}
				slack := d.stallIn(in.idx, n.T, n.T+G+time.Second)
				if t.Fall == nil || t.End > n.T+G+slack {
					when := "never"
					if t.Fall != nil {
						when = fmt.Sprintf("at %v (%s)", t.End, t.EndStack)
					}
					closed := false
					for _, m := range notifs {
						if m.Kind == AClosed && m.T > n.T && m.T <= n.T+G {
							closed = true
						}
					}
					d.h.violate("C11", fmt.Sprintf("no-demotion-at-grace-expiry/closed-notification=%v", closed), fmt.Sprintf("i%d.%d led from %v, disconnect notification at %v, no reconnect: must be demoted at %v (grace %v) but was demoted %s", in.idx, o.gen, t.Start, n.T, n.T+G, G, when), n.T+G, 0)
				} else if d.expectsOnDemote(in.idx, o.gen, t.SEnd) {
					cb := d.demoteCbAfter(in.idx, o.gen, t.SEnd)
					if cb == nil || cb.T > t.End+d.stallIn(in.idx, t.End, t.End+time.Second) {
						d.h.violate("C11", "grace-demotion-without-ondemote", fmt.Sprintf("i%d.%d demoted at grace expiry %v but OnDemote did not run at that moment", in.idx, o.gen, t.End), t.End, t.SEnd)
					}
				}
			}
			// (c) after a reconnect: keeps leadership iff a fresh read shows its own id and token.
			// Every reconnect notification that finds the instance leading starts one verification
			// (100 ms pause, a connection-test read, then the token validation read); the k-th such
			// notification is matched with the k-th connection-test read.
			var tests []*Op
			for _, op := range d.h.Ops {
				if op.Inst == in.idx && op.Gen == o.gen && op.Kind == "get" && strings.Contains(op.Caller, "verifyLeadershipAfterReconnect") {
					tests = append(tests, op)
				}
			}
			k := 0
			for _, n := range notifs {
				if n.Kind != AReconnect || !n.Leader {
					continue
				}
				// the read that belongs to this notification: the first one not yet matched that was issued
				// 100 ms (plus stalls of this instance) after it. (Matching by count alone goes wrong when a
				// notification finds the instance leading but the handler, run a moment later, does not.)
				due := n.T + 100*time.Millisecond + d.stallIn(in.idx, n.T, n.T+time.Second) + 10*time.Millisecond
				var g1 *Op
				for j := k; j < len(tests); j++ {
					if tests[j].TInvoke >= n.T+100*time.Millisecond && tests[j].TInvoke <= due {
						g1, k = tests[j], j+1
						break
					}
				}
				if g1 == nil {
					// a reconnect notification delivered to a leader, and no verification read followed:
					// "keeps leadership if and only if a fresh read shows ..." needs that read. (The
					// verification starts 100 ms after the notification; an instance that stopped leading,
					// was stopped, or whose run ended before that owes none.)
					var t *Term
					for _, x := range myTerms {
						if x.SStart < n.Step && (x.Fall == nil || x.SEnd > n.Step) {
							t = x
						}
					}
					if t != nil && (t.Fall == nil || t.End > due) && due < d.endAt && !d.stopInvokedBefore(in.idx, o.gen, due) {
						d.judgedInc("C11")
						d.h.violate("C11", "no-verification-after-reconnect", fmt.Sprintf("i%d.%d: reconnect notification at %v while leading; no verification read of the record followed", in.idx, o.gen, n.T), due, n.Step)
					}
					continue
				}
				var t *Term
				for _, x := range myTerms {
					if x.SStart < n.Step && (x.Fall == nil || x.SEnd > n.Step) {
						t = x
					}
				}
				if t == nil || g1.TRet < 0 {
					continue
				}
				end := g1
				if g1.Err == nil {
					// the validation read that follows at once
					var g2 *Op
					for _, op := range d.h.Ops {
						if op.Inst == in.idx && op.Gen == o.gen && op.Kind == "get" && strings.HasPrefix(op.Caller, "validateToken") && op.SInvoke >= g1.SRet && op.TInvoke <= g1.TRet+d.stallIn(in.idx, g1.TRet, g1.TRet+time.Second) {
							g2 = op
							break
						}
					}
					if g2 == nil || g2.TRet < 0 {
						continue
					}
					end = g2
				}
				if end.TRet+time.Second >= d.endAt || d.stopInvokedBefore(in.idx, o.gen, end.TRet+time.Millisecond) {
					continue
				}
				if g1.Fault != "" || end.Fault != "" || end.TRet-g1.TInvoke >= 2*time.Second {
					d.skip("C11", "verification-reads-faulted-or-slow")
					continue
				}
				// record over the verification window: constantly the term's record, or constantly not
				own, other := false, false
				cur := g1.TInvoke
				for _, iv := range d.liveTimeline(in.cfg.Group) {
					if iv.b <= g1.TInvoke || iv.a > end.TRet {
						continue
					}
					if iv.a > cur {
						other = true // a gap without live record
					}
					if iv.v.P.OK && iv.v.P.ID == in.cfg.ID && iv.v.P.Token == t.Token {
						own = true
					} else {
						other = true
					}
					cur = iv.b
				}
				if cur < end.TRet {
					other = true
				}
				if !own && end != g1 && end.Applied && end.OK {
					// The term that led when the notification came is over, and the instance leads a
					// later term when the verification reads the record: "its own identity and token"
					// is that term's. If the read showed exactly that and the verification demoted all
					// the same, it judged the current term by an earlier one's token.
					for _, t2 := range myTerms {
						if t2 == t || t2.Start > end.TApply || (t2.Fall != nil && t2.End <= end.TApply) {
							continue
						}
						if lv := end.PrevLive; lv != nil && lv.P.OK && lv.P.ID == in.cfg.ID && lv.P.Token == t2.Token && lv.Writer == in.idx && lv.Gen == o.gen {
							d.judgedInc("C11")
							if t2.Fall != nil && strings.Contains(t2.EndStack, "handleReconnectVerificationFailed") && t2.End >= end.TApply && t2.End <= end.TRet+d.stallIn(in.idx, end.TRet, end.TRet+time.Second)+time.Millisecond {
								d.h.violate("C11", "demoted-after-successful-reconnect-verification/term-changed-during-verification", fmt.Sprintf("i%d.%d: reconnect at %v during the term from %v; by the time the verification read the record (#%d at %v) the instance led a new term (from %v) and the record held its id and that term's token, but the verification demoted it at %v", in.idx, o.gen, n.T, t.Start, end.ID, end.TApply, t2.Start, t2.End), t2.End, t2.SEnd)
							}
						}
					}
				}
				if own == other {
					d.skip("C11", "record-changed-during-verification")
					continue
				}
				// another verification of the same object that failed inside this window may be the one
				// that demoted: not attributable
				overlap := false
				for _, other := range tests {
					if other != g1 && other.TRet >= g1.TInvoke && other.TRet <= end.TRet+time.Millisecond && (other.Err != nil || other.Fault != "") {
						overlap = true
					}
					// ... or a verification whose validation read was lost or slow: it gives up when its
					// own 2 s budget ends, possibly in the middle of this (later) verification
					if other != g1 && other.Err == nil && other.TRet >= 0 {
						var v2 *Op
						for _, op := range d.h.Ops {
							if op.Inst == in.idx && op.Gen == o.gen && op.Kind == "get" && strings.HasPrefix(op.Caller, "validateToken") && op.SInvoke >= other.SRet && op.TInvoke <= other.TRet+d.stallIn(in.idx, other.TRet, other.TRet+time.Second) {
								v2 = op
								break
							}
						}
						bad := v2 == nil || v2.TRet < 0 || v2.Fault != "" || v2.Err != nil || v2.TRet-other.TInvoke >= 2*time.Second
						if bad && other.TInvoke <= end.TRet && other.TInvoke+3*time.Second >= g1.TInvoke {
							overlap = true
						}
					}
				}
				if overlap {
					d.skip("C11", "overlapping-verifications")
					continue
				}
				d.judgedInc("C11")
				if own {
					if t.Fall != nil && strings.Contains(t.EndStack, "handleReconnectVerificationFailed") && t.End >= g1.TInvoke && t.End <= end.TRet+d.stallIn(in.idx, end.TRet, end.TRet+time.Second)+time.Millisecond {
						d.h.violate("C11", "demoted-after-successful-reconnect-verification", fmt.Sprintf("i%d.%d: reconnect at %v; the record held its id and token throughout the verification [%v,%v], but the verification demoted it at %v", in.idx, o.gen, n.T, g1.TInvoke, end.TRet, t.End), t.End, t.SEnd)
					}
				} else {
					deadline := end.TRet + d.stallIn(in.idx, end.TRet, end.TRet+time.Second) + time.Millisecond
					if t.Fall == nil || t.End > deadline {
						d.h.violate("C11", "still-leader-after-failed-reconnect-verification", fmt.Sprintf("i%d.%d: reconnect at %v; the record did not hold its id and token at any time of the verification [%v,%v] (last read #%d err=%v), but it kept claiming leadership", in.idx, o.gen, n.T, g1.TInvoke, end.TRet, end.ID, errStr(end.Err)), deadline, end.SRet)
					}
				}
			}
		}
	}
}

// ---------- C10: priority takeover only strictly upward, and prompt ----------

// judgeC10safety: every replacement of a live record written by somebody else needs takeover
// enabled and a strictly higher priority than the one stored in the replaced record.
func (d *Driver) judgeC10safety() {
	// the priority an instance publishes in its record is the one it was configured with: the
	// comparison "strictly greater than the priority stored in that record" means nothing otherwise
	for _, op := range d.h.Ops {
		if op.Inst < 0 || !op.Applied || !op.OK || (op.Kind != "update" && op.Kind != "create") {
			continue
		}
		if np := parsePayload(op.Val); np.OK && np.ID == d.inst(op.Inst).cfg.ID && np.Prio != d.inst(op.Inst).cfg.Prio {
			d.h.violate("C10", "published-priority-differs-from-configured/"+callerSig(op.Caller), fmt.Sprintf("i%d is configured with priority %d but wrote a record with priority %d", op.Inst, d.inst(op.Inst).cfg.Prio, np.Prio), op.TApply, op.SApply)
		}
	}
	for _, op := range d.h.Ops {
		if op.Inst < 0 || !op.Applied || !op.OK || op.Kind != "update" || op.PrevLive == nil {
			continue
		}
		prev := op.PrevLive
		if prev.Writer == op.Inst && prev.Gen == op.Gen {
			continue // refresh of its own record
		}
		in := d.inst(op.Inst)
		d.judgedInc("C10")
		prevPrio := 0
		if prev.P.OK {
			prevPrio = prev.P.Prio
		}
		switch {
		case !in.cfg.Takeover:
			d.h.violate("C10", "replacement-with-takeover-disabled/"+callerSig(op.Caller), fmt.Sprintf("i%d (takeover disabled, prio %d) replaced the live record seq=%d of i%d (prio %d)", op.Inst, in.cfg.Prio, prev.Seq, prev.Writer, prevPrio), op.TApply, op.SApply)
		case in.cfg.Prio <= prevPrio:
			d.h.violate("C10", fmt.Sprintf("replacement-without-strictly-higher-priority/equal=%v/%s", in.cfg.Prio == prevPrio, callerSig(op.Caller)), fmt.Sprintf("i%d (prio %d) replaced the live record seq=%d of i%d (stored prio %d)", op.Inst, in.cfg.Prio, prev.Seq, prev.Writer, prevPrio), op.TApply, op.SApply)
		}
	}
}

// judgeC10prompt: fault-free family with latency <= H/10.
func (d *Driver) judgeC10prompt() {
	p := d.plan
	if ok, _ := d.latencyPreconditionOK(p.H/10 + 1); !ok {
		d.skip("C10", "latency-precondition")
		return
	}
	tl := d.liveTimeline("g1")
	slack := 2*(p.Store.Req[1]+p.Store.Resp[1]) + time.Millisecond
	var claims []*ClaimEvt
	for _, c := range d.h.Claims {
		if c.Edge && c.Val {
			claims = append(claims, c)
		}
	}
	maxTk := 0
	for _, in := range d.insts {
		if in.cfg.Takeover && in.cfg.Prio > maxTk && len(in.objs) > 0 {
			maxTk = in.cfg.Prio
		}
	}
	for _, y := range d.insts {
		if !y.cfg.Takeover || len(y.objs) == 0 {
			continue
		}
		// maximal stretches during which the live record's stored priority is below y's
		var s0 time.Duration = -1
		flush := func(end time.Duration) {
			if s0 < 0 {
				return
			}
			s := s0
			if y.startedAt > s {
				s = y.startedAt
			}
			// plans of the family that stall goroutines do so in a bounded initial window
			// (stalled processes are not "fault-free conditions"): the clause is judged from the
			// moment the last stall has ended
			if p.Sched.StallMax > 0 {
				if p.Sched.StallUntil == 0 {
					s0 = -1
					return
				}
				if q := p.Sched.StallUntil + p.Sched.StallMax; q > s {
					s = q
				}
			}
			s0 = -1
			if s >= end || s+3*p.H+slack >= d.endAt {
				return
			}
			if d.stopInvokedBefore(y.idx, -1, s+3*p.H+slack+time.Millisecond) {
				return // y itself is shut down inside the window
			}
			d.judgedInc("C10")
			ok := false
			for _, c := range claims {
				if d.insts[c.Inst].cfg.Prio >= y.cfg.Prio && c.T >= s && c.T <= s+3*p.H+slack+d.stallIn(c.Inst, s, s+3*p.H+slack) {
					ok = true
				}
			}
			if !ok {
				d.h.violate("C10", "takeover-not-within-3H", fmt.Sprintf("i%d (prio %d, takeover enabled) ran next to a lower-priority leader from %v; nobody of priority >= %d became leader within 3 heartbeat intervals (%v)", y.idx, y.cfg.Prio, s, y.cfg.Prio, 3*p.H), s+3*p.H, 0)
			}
		}
		var last time.Duration
		for _, iv := range tl {
			low := iv.v.P.OK && iv.v.P.Prio < y.cfg.Prio && iv.v.P.ID != y.cfg.ID
			if iv.a > last && s0 >= 0 {
				flush(last) // a gap without live record ends the stretch
			}
			if low {
				if s0 < 0 {
					s0 = iv.a
				}
			} else {
				flush(iv.a)
			}
			last = iv.b
		}
		flush(last)
	}
	// stability: once the record's priority is maximal among the takeover-enabled instances that
	// were started, the owner never changes again (all instances of this family start early and
	// never stop)
	var stableFrom time.Duration = -1
	var owner string
	for _, iv := range tl {
		if !iv.v.P.OK {
			continue
		}
		if stableFrom >= 0 && iv.v.P.ID != owner {
			// the owner itself was shut down before the change: leadership legitimately moves on
			stopped := false
			for _, in := range d.insts {
				if in.cfg.ID == owner && d.stopInvokedBefore(in.idx, -1, iv.a) {
					stopped = true
				}
			}
			if stopped {
				stableFrom, owner = -1, ""
				continue
			}
			d.h.violate("C10", "owner-change-after-highest-priority-leads", fmt.Sprintf("record owner changed from %s to %s at %v although %s (stored prio >= %d) led since %v", owner, iv.v.P.ID, iv.a, owner, maxTk, stableFrom), iv.a, 0)
			break
		}
		lateStart := false
		for _, in := range d.insts {
			if in.startedAt > iv.a {
				lateStart = true
			}
		}
		if stableFrom < 0 && iv.v.P.Prio >= maxTk && !lateStart {
			stableFrom, owner = iv.a, iv.v.P.ID
			d.judgedInc("C10")
		}
	}
	d.judgeC03as("C10")
}

// ---------- C06: a vacancy is filled within a bounded time ----------

// opFaultWindowsFor returns the fault windows (store operations and partitions, not watch
// delivery faults) that cover the instance, extended by the client time-out of operations that
// were still in flight when the window closed.
func (d *Driver) opFaultWindowsFor(inst int) [][2]time.Duration {
	var out [][2]time.Duration
	for i := range d.plan.Faults {
		f := &d.plan.Faults[i]
		switch f.Kind {
		case FWatchDrop, FWatchHold, FWatchDup:
			continue
		}
		if f.Inst >= 0 && f.Inst != inst {
			continue
		}
		if f.OpN > 0 {
			// a point fault touches one operation: from its invocation until it has been answered
			for _, op := range d.h.Ops {
				n := op.Nth
				if f.Op != "" {
					n = op.NthKind
				}
				if (f.Inst < 0 || op.Inst == f.Inst) && op.Inst == inst && (f.Op == "" || f.Op == op.Kind) && n == f.OpN {
					w := [2]time.Duration{op.TInvoke, 1 << 60}
					if op.TRet >= 0 {
						w[1] = op.TRet + time.Millisecond
					}
					out = append(out, w)
				}
			}
			continue
		}
		to := f.To
		if to == 0 {
			to = 1 << 60
		} else {
			to += d.clientTimeout() + time.Second
		}
		out = append(out, [2]time.Duration{f.From, to})
	}
	return out
}

func (d *Driver) judgeC06() {
	p := d.plan
	lam := p.Store.Req[1] + p.Store.Resp[1]
	terms := d.terms()
	groups := map[string]bool{}
	for _, in := range d.insts {
		groups[in.cfg.Group] = true
	}
	for g := range groups {
		tl := d.liveTimeline(g)
		// vacancy intervals
		type vac struct{ a, b time.Duration }
		var vacs []vac
		cur := time.Duration(0)
		for _, iv := range tl {
			if iv.a > cur {
				vacs = append(vacs, vac{cur, iv.a})
			}
			if iv.b > cur {
				cur = iv.b
			}
		}
		if cur < d.endAt {
			vacs = append(vacs, vac{cur, d.endAt + time.Hour})
		}
		// "One of those instances becomes leader": a claim that rises inside a vacancy fills it, even
		// if the claimant's record is already gone again (its Create was applied just before the
		// record was removed; how long such a claim may stand is C03's bound). The vacancy is split
		// at the claim: the part after the claim's falling edge is judged on its own.
		var split []vac
		for _, v := range vacs {
			a := v.a
			var inside []*Term
			for _, t := range terms {
				if in := d.inst(t.Inst); in != nil && in.cfg.Group == g && t.Start > v.a && t.Start < v.b {
					inside = append(inside, t)
				}
			}
			sort.Slice(inside, func(i, j int) bool { return inside[i].Start < inside[j].Start })
			open := true
			for _, t := range inside {
				if t.Start < a {
					continue
				}
				split = append(split, vac{a, t.Start})
				if t.Fall == nil {
					open = false
					break
				}
				a = t.End
			}
			if open && a < v.b {
				split = append(split, vac{a, v.b})
			}
		}
		vacs = split
		for _, v := range vacs {
			// earliest deadline over the candidates that are healthy for their whole window
			var dl time.Duration = -1
			var who int
			for _, in := range d.insts {
				if in.cfg.Group != g || len(in.objs) == 0 {
					continue
				}
				// the object that runs during the vacancy: started before, not stopped/crashed until its deadline
				for _, st := range d.h.Apis {
					if st.Inst != in.idx || (st.Kind != AStart && st.Kind != ARestart) || st.Err != nil || st.TRet < 0 {
						continue
					}
					o := d.obj(st.Inst, st.Gen)
					if o == nil {
						continue
					}
					t0 := v.a
					if st.TRet > t0 {
						t0 = st.TRet
					}
					// a started instance whose first attempt lost is a follower (watching, checking every
					// 500 ms) once that attempt has returned: at most a Create and a takeover read later
					if t1 := st.TRet + 2*lam + d.stallIn(in.idx, st.TRet, st.TRet+2*lam+time.Second); t1 > t0 {
						t0 = t1
					}
					// not claiming: a deposed leader becomes a candidate at its falling edge
					claiming := false
					for _, t := range terms {
						if t.Inst == st.Inst && t.Gen == st.Gen {
							if t.Start <= t0 && (t.Fall == nil || t.End > t0) {
								if t.Fall == nil {
									claiming = true
								} else {
									// (the follower loop it starts then begins with a Watch call: one more
									// operation latency before its first look at the key)
									t0 = t.End + lam
								}
							} else if t.Fall != nil && t.End > t0 && t.Start < v.b && t.Start > t0 {
								// became leader itself inside the window: fine, handled by the vacancy ending
							}
						}
					}
					if claiming {
						continue
					}
					// fault windows: start the clock after the last one that touches [t0, ...]
					ok := true
					for changed := true; changed; {
						changed = false
						for _, w := range d.opFaultWindowsFor(in.idx) {
							// (a candidate whose goroutines were stalled reaches the store later: a fault
							// window that opens within its stalled acquisition touches it as well)
							if w[0] <= t0+600*time.Millisecond+2*lam+d.stallIn(in.idx, t0, t0+time.Second+2*lam) && w[1] > t0 {
								if w[1] >= 1<<59 {
									ok = false
								} else {
									t0 = w[1]
									changed = true
								}
							}
						}
					}
					if !ok {
						continue
					}
					deadline := t0 + 500*time.Millisecond + 100*time.Millisecond + 2*lam + d.stallIn(in.idx, t0, t0+time.Second+2*lam) + time.Millisecond
					// stopped, restarted or crashed before its deadline => not a candidate over the window
					gone := false
					for _, a := range d.h.Apis {
						if a.Inst == in.idx && a.SInv > st.SInv && a.TInv <= deadline && (a.Kind == AStop || a.Kind == AStopCtx || a.Kind == ARestart || a.Kind == AStart || a.Kind == ACancelStart) {
							if a.Kind == AStart && a.TRet >= 0 && a.Err != nil {
								continue // a refused Start (already started, stop in progress) changes nothing
							}
							gone = true
						}
					}
					for i := range p.Actions {
						if a := &p.Actions[i]; a.Kind == ACrash && a.Inst == in.idx && a.OpN == 0 && a.At > st.TInv && a.At <= deadline {
							gone = true
						}
					}
					if gone || o.dead && deadline > d.endAt {
						continue
					}
					if t0 >= v.b {
						continue // the vacancy was over before this candidate's clock started
					}
					if dl < 0 || deadline < dl {
						dl, who = deadline, in.idx
					}
				}
			}
			if dl < 0 || dl >= d.endAt {
				d.skip("C06", "no-healthy-candidate-or-run-ended")
				continue
			}
			d.judgedInc("C06")
			if v.b > dl {
				d.h.violate("C06", "vacancy-not-filled-in-time", fmt.Sprintf("group %s vacant from %v; healthy candidate i%d had to be leader by %v (500ms + 100ms + latencies) but nobody claimed leadership (and no record was created) before %v", g, v.a, who, dl, minDur(v.b, d.endAt)), dl, 0)
			}
		}
	}
	if p.Tail > 0 {
		d.tailLeaderCheck("C06")
	}
}

func minDur(a, b time.Duration) time.Duration {
	if a < b {
		return a
	}
	return b
}

func trunc(x string, n int) string {
	if len(x) > n {
		return x[:n] + "..."
	}
	return x
}

func maxDur(a, b time.Duration) time.Duration {
	if a > b {
		return a
	}
	return b
}
