package sim

import (
	"fmt"
	"sort"
	"strings"
	"time"
)

// Term is one leadership term of one election object.
type Term struct {
	Obj          *elObj
	Inst, Gen    int
	N            int
	Start, End   time.Duration // End -1 = still claimed at end of run
	SStart, SEnd uint64
	Token        string
	StartStack   string
	EndStack     string
	Rise, Fall   *ClaimEvt
}

func (d *Driver) terms() []*Term {
	var out []*Term
	open := map[[2]int]*Term{}
	cnt := map[[2]int]int{}
	for _, c := range d.h.Claims {
		if !c.Edge {
			continue
		}
		k := [2]int{c.Inst, c.Gen}
		if c.Val {
			cnt[k]++
			t := &Term{Inst: c.Inst, Gen: c.Gen, N: cnt[k], Start: c.T, SStart: c.Step, End: -1, Token: c.Token, StartStack: c.Stack, Rise: c}
			t.Obj = d.obj(c.Inst, c.Gen)
			open[k] = t
			out = append(out, t)
		} else if t := open[k]; t != nil {
			t.End, t.SEnd, t.EndStack, t.Fall = c.T, c.Step, c.Stack, c
			delete(open, k)
		}
	}
	return out
}

func (d *Driver) obj(inst, gen int) *elObj {
	if in := d.inst(inst); in != nil {
		for _, o := range in.objs {
			if o.gen == gen {
				return o
			}
		}
	}
	return nil
}

func (d *Driver) skip(prop, why string) {
	if d.skipped == nil {
		d.skipped = map[string]int{}
	}
	d.skipped[prop+":"+why]++
}

func (d *Driver) judgedInc(prop string) {
	if d.judged == nil {
		d.judged = map[string]int{}
	}
	d.judged[prop]++
}

// callerSig reduces a caller chain to a stable mechanism name.
func callerSig(c string) string {
	parts := strings.Split(c, "<")
	if len(parts) > 3 {
		parts = parts[:3]
	}
	return strings.Join(parts, "<")
}

// ---- hooks called during the run ----

func (d *Driver) afterStep()                         {}
func (d *Driver) checkAtApply(op *Op)                {}
func (d *Driver) onClaimEdge(o *elObj, ev *ClaimEvt) {}

// checkTransition: the recorded state transitions of one election object form a chain - each
// from-state equals the previous to-state, or CANDIDATE right after Start (Start moves the
// state to CANDIDATE without recording a transition). Called from the metrics observer, i.e.
// inside the library's critical section, with d.mu held.
func (d *Driver) checkTransition(o *elObj, from, to string) {
	if !d.plan.judges("C18") || o.dead {
		return
	}
	d.judgedInc("C18")
	if !validStates[from] || !validStates[to] {
		d.h.violate("C18", "undocumented-state-in-transition/"+from+"->"+to, fmt.Sprintf("i%d.%d recorded transition %s -> %s", o.in.idx, o.gen, from, to), d.now(), d.step)
		return
	}
	want := o.lastTo
	if want == "" {
		want = "CANDIDATE"
	}
	if o.afterStart && from == "CANDIDATE" {
		want = "CANDIDATE"
	}
	if from != want && !(o.startInFlight > 0 && from == "CANDIDATE") {
		d.h.violate("C18", fmt.Sprintf("transition-chain-broken/%s->%s/after:%s", from, to, want), fmt.Sprintf("i%d.%d recorded transition %s -> %s but its previous to-state was %s", o.in.idx, o.gen, from, to, want), d.now(), d.step)
	}
}
func (d *Driver) finalChecks() {}

// ---- post-run judgement ----

func (d *Driver) judge() {
	d.store.Finish(d.lastNow)
	p := d.plan
	if d.maxDepth > 0 {
		d.h.violate("C13", "unbounded-recursion", fmt.Sprintf("stack depth %d frames at a store operation", d.maxDepth), 0, 0)
	}
	d.judgeLockOrder()
	if p.judges("C01") {
		d.judgeC01()
	}
	if p.judges("C02") {
		d.judgeC02()
	}
	if p.judges("C03") {
		d.judgeC03()
	}
	if p.judges("C04") {
		d.judgeC04()
	}
	if p.judges("C05") {
		d.judgeC05()
	}
	if p.judges("C13") {
		d.judgeC13()
	}
	if p.judges("C06") {
		d.judgeC06()
	}
	if p.judges("C07") {
		d.judgeC07()
	}
	if p.judges("C08") {
		d.judgeC08()
	}
	if p.judges("C09") {
		d.judgeC09()
	}
	if p.judges("C10") {
		d.judgeC10safety()
		if p.Family == "c10" {
			d.judgeC10prompt()
		}
	}
	if p.judges("C11") {
		d.judgeC11()
	}
	if p.judges("C12") {
		d.judgeC12()
	}
	if p.judges("C17") {
		d.judgeC17rounds()
	}
	if p.judges("C19") {
		d.judgeC19()
	}
	// keep only violations of judged properties (plus simulator trouble)
	var keep []Violation
	for _, v := range d.h.Viol {
		if v.Prop == "SIM" || p.judges(v.Prop) {
			keep = append(keep, v)
		}
	}
	d.h.Viol = keep
}

// C01: every successful mutation is creation over no live record, a refresh by
// the previous writer, a legitimate priority takeover, or the owner's own
// shutdown deletion; and elections never touch another group's key.
func (d *Driver) judgeC01() {
	for _, op := range d.h.Ops {
		if op.Inst < 0 || !op.Applied || !op.OK {
			continue
		}
		in := d.inst(op.Inst)
		switch op.Kind {
		case "create", "update", "delete":
		default:
			if op.Key != in.cfg.Group {
				d.h.violate("C01", "cross-group/"+op.Kind+"/"+callerSig(op.Caller), fmt.Sprintf("i%d (group %s) issued %s on key %s", op.Inst, in.cfg.Group, op.Kind, op.Key), op.TApply, op.SApply)
			}
			continue
		}
		d.judgedInc("C01")
		if op.Key != in.cfg.Group {
			d.h.violate("C01", "cross-group/"+op.Kind+"/"+callerSig(op.Caller), fmt.Sprintf("i%d (group %s) mutated key %s", op.Inst, in.cfg.Group, op.Key), op.TApply, op.SApply)
			continue
		}
		prev := op.PrevLive
		switch op.Kind {
		case "create":
			if prev != nil {
				d.h.violate("C01", "create-over-live/"+callerSig(op.Caller), "create succeeded over a live record", op.TApply, op.SApply)
			}
		case "update":
			if prev == nil {
				continue // nothing live was owned by anybody
			}
			np := parsePayload(op.Val)
			if prev.Writer == op.Inst && prev.Gen == op.Gen {
				// refresh by the previous writer
				if !np.OK || np.ID != prev.P.ID || np.Token != prev.P.Token {
					d.h.violate("C01", "refresh-changes-identity/"+callerSig(op.Caller), fmt.Sprintf("i%d rewrote its record %s with %s", op.Inst, prev.Val, op.Val), op.TApply, op.SApply)
				}
				continue
			}
			// replacement of a record written by somebody else
			if in.cfg.Takeover && prev.P.OK && in.cfg.Prio > prev.P.Prio && np.OK && np.ID == in.cfg.ID {
				d.probe("legit_takeover")
				continue
			}
			kind := "update-foreign"
			if np.OK && np.ID == in.cfg.ID && strings.Contains(op.Caller, "heartbeatLoop") {
				kind = "refresh-of-foreign-record"
			}
			d.h.violate("C01", kind+"/"+callerSig(op.Caller),
				fmt.Sprintf("i%d.%d (prio %d takeover %v) replaced record seq=%d %s (writer i%d.%d) with %s rev=%d", op.Inst, op.Gen, in.cfg.Prio, in.cfg.Takeover, prev.Seq, prev.Val, prev.Writer, prev.Gen, op.Val, op.Rev), op.TApply, op.SApply)
		case "delete":
			if prev == nil {
				continue
			}
			if prev.Writer == op.Inst && prev.Gen == op.Gen && op.InStopDelete {
				d.probe("owner_shutdown_delete")
				continue
			}
			how := "delete-foreign"
			if prev.Writer == op.Inst && prev.Gen == op.Gen {
				how = "delete-own-outside-shutdown"
			} else {
				// the stop call that issued it: did it find a leader? (an instance that knew it had been
				// deposed when it was stopped has no business deleting anything)
				calls, foundLeader := 0, false
				for _, a := range d.h.Apis {
					if a.Inst == op.Inst && a.Gen == op.Gen && a.Kind == AStopCtx && a.SInv <= op.SInvoke && (a.TRet < 0 || a.SRet >= op.SInvoke) {
						calls++
						if a.WasLeaderAtInv || a.OwnerAtInv {
							// (OwnerAtInv: the live record was this object's when the call came - e.g. its
							// acquisition had been acknowledged, the promotion not yet made)
							foundLeader = true
						}
						// (the caller may have been stalled before the call's critical section: what
						// counts is whether that section ended a claim)
						for _, c := range d.h.Claims {
							if c.Edge && !c.Val && c.Inst == op.Inst && c.Gen == op.Gen && c.Step >= a.SInv && c.Step <= op.SInvoke && stopStack(c.Stack) {
								foundLeader = true
							}
						}
						// ... or whether an acquisition of the instance that was in flight when the call came
						// wrote the record during the call (the instance then owns a record it never led
						// on, and a graceful shutdown releases it - since the library repair for C09's
						// last clause): the deletion is the shutdown of an owner that may have been replaced
						// without noticing, i.e. the recorded finding, not a deletion by a bystander
						for _, w := range d.h.Ops {
							if w.Inst == op.Inst && w.Gen == op.Gen && (w.Kind == "create" || w.Kind == "update") && w.OK && w.New != nil && w.SInvoke <= a.SInv+1 && w.SRet >= a.SInv && w.SRet <= op.SInvoke && w.Err == nil {
								foundLeader = true
							}
						}
					}
				}
				if calls > 0 && !foundLeader {
					how = "delete-foreign-by-non-leader"
				} else {
					// When did the deleter's own record stop being the live one? A leader that was
					// replaced a moment ago may not know yet (C03 gives it one heartbeat interval and two
					// operation time-outs): that is the recorded finding. One whose record has been
					// gone for longer should not be claiming at all any more.
					var lastOwn time.Duration = -1
					for _, iv := range d.liveTimeline(op.Key) {
						if iv.v.Writer == op.Inst && iv.v.Gen == op.Gen && iv.b <= op.TApply && iv.b > lastOwn {
							lastOwn = iv.b
						}
					}
					bound := d.plan.H + 2*hbTimeout(d.plan.H)
					for _, u := range d.h.Ops {
						// a refresh whose answer took longer than the per-refresh time-out (slow store
						// envelope, no fault injected) is a failed attempt without a verdict: the window
						// C03 gives is then the one of its second clause
						if u.Inst == op.Inst && u.Gen == op.Gen && u.Kind == "update" && u.TInvoke <= op.TApply && (u.TRet < 0 || u.TRet >= lastOwn) && (u.TRet < 0 || u.TRet-u.TInvoke >= hbTimeout(d.plan.H)) {
							bound = 3*d.plan.H + 3*hbTimeout(d.plan.H)
							break
						}
					}
					bound += d.stallIn(op.Inst, lastOwn, op.TApply) + d.clientTimeout()
					if lastOwn >= 0 && op.TApply-lastOwn > bound && !d.faultyFor(op.Inst) {
						how = "delete-foreign-long-after-own-record-was-lost"
					}
				}
			}
			d.h.violate("C01", how+"/"+callerSig(op.Caller),
				fmt.Sprintf("i%d.%d deleted record seq=%d %s written by i%d.%d", op.Inst, op.Gen, prev.Seq, prev.Val, prev.Writer, prev.Gen), op.TApply, op.SApply)
		}
	}
}

// maxOpLatency returns the largest invoke->return latency among operations of
// live objects of the group.
func (d *Driver) latencyPreconditionOK(bound time.Duration) (bool, string) {
	for _, op := range d.h.Ops {
		if op.Inst < 0 || op.Fault == "ending" {
			continue
		}
		if op.obj != nil && op.obj.dead {
			continue
		}
		end := op.TRet
		if end < 0 {
			end = d.lastNow
		}
		if end-op.TInvoke >= bound {
			return false, fmt.Sprintf("op #%d %s took %v >= %v", op.ID, op.Kind, end-op.TInvoke, bound)
		}
	}
	return true, ""
}

type interval struct {
	a, b time.Duration
	v    *Version
}

// liveTimeline returns the live PUT intervals of a key in time order.
func (d *Driver) liveTimeline(key string) []interval {
	var out []interval
	for _, v := range d.store.All {
		if v.Key != key || v.Op != opPut {
			continue
		}
		e, _ := v.EndAt(d.store.MaxAge)
		if e < 0 || e > d.lastNow {
			e = d.lastNow + 1
		}
		out = append(out, interval{v.At, e, v})
	}
	sort.Slice(out, func(i, j int) bool { return out[i].a < out[j].a })
	return out
}

// C02: at most one claiming instance per group at every flag change, and every
// claim is backed, for its whole duration, by a live record naming the
// claimant with the claimant's token.
func (d *Driver) judgeC02() {
	if ok, why := d.latencyPreconditionOK(d.plan.H / 2); !ok {
		d.skip("C02", "latency-precondition")
		_ = why
		return
	}
	terms := d.terms()
	for _, c := range d.h.Claims {
		if !c.Edge || !c.Val {
			continue
		}
		o := d.obj(c.Inst, c.Gen)
		if o == nil || o.dead {
			continue
		}
		d.judgedInc("C02")
		if len(c.Leaders) > 1 {
			d.h.violate("C02", "two-leaders/rise-by:"+c.Stack, fmt.Sprintf("i%d became leader while leaders=%v", c.Inst, c.Leaders), c.T, c.Step)
		}
	}
	for _, t := range terms {
		if t.Obj == nil {
			continue
		}
		in := d.inst(t.Inst)
		end := t.End
		if end < 0 {
			end = d.lastNow
		}
		if t.Obj.dead {
			// claims of a crashed process do not count after the crash; we do not know the
			// crash time per object here, so skip its last term
			continue
		}
		tl := d.liveTimeline(in.cfg.Group)
		// walk [t.Start, end): every instant must be covered by a version with id/token
		cur := t.Start
		for _, iv := range tl {
			if iv.b <= cur {
				continue
			}
			if iv.a > cur {
				break
			}
			if !(iv.v.P.OK && iv.v.P.ID == in.cfg.ID && iv.v.P.Token == t.Token) {
				break
			}
			cur = iv.b
			if cur >= end {
				break
			}
		}
		if cur < end {
			// what is there at cur?
			what := "no-live-record"
			for _, iv := range tl {
				if iv.a <= cur && cur < iv.b {
					what = "record-of-other"
					if iv.v.P.ID == in.cfg.ID {
						what = "record-with-other-token"
					}
				}
			}
			cause := ""
			for _, iv := range tl {
				if iv.b == cur {
					_, cause = iv.v.EndAt(d.store.MaxAge)
				}
			}
			d.h.violate("C02", fmt.Sprintf("claim-not-backed/%s/%s/rise-by:%s", what, cause, t.StartStack),
				fmt.Sprintf("i%d.%d claims leadership (term from %v, token %s) but at %v the group's record is: %s", t.Inst, t.Gen, t.Start, short(t.Token), cur, what), cur, 0)
		}
	}
}

// judgeLockOrder: the nesting order of the library's mutexes observed in this run must be
// acyclic (C09, C11, C13: "never deadlocks", whatever the timing). Two locks taken in both orders
// by different code paths deadlock under some schedule even if this run's schedule was harmless.
func (d *Driver) judgeLockOrder() {
	if len(d.lockEdges) == 0 {
		return
	}
	var props []string
	for _, id := range []string{"C09", "C11", "C13"} {
		if d.plan.judges(id) {
			props = append(props, id)
		}
	}
	if len(props) == 0 {
		return
	}
	adj := map[string][]string{}
	for k := range d.lockEdges {
		adj[k[0]] = append(adj[k[0]], k[1])
	}
	for _, v := range adj {
		sort.Strings(v)
	}
	var keys [][2]string
	for k := range d.lockEdges {
		keys = append(keys, k)
	}
	sort.Slice(keys, func(i, j int) bool { return keys[i][0]+"|"+keys[i][1] < keys[j][0]+"|"+keys[j][1] })
	reported := map[string]bool{}
	for _, k := range keys {
		// path from k[1] back to k[0]?
		seen := map[string]bool{}
		var path []string
		var dfs func(x string) bool
		dfs = func(x string) bool {
			if x == k[0] {
				return true
			}
			if seen[x] {
				return false
			}
			seen[x] = true
			for _, y := range adj[x] {
				if dfs(y) {
					path = append([]string{y}, path...)
					return true
				}
			}
			return false
		}
		if !dfs(k[1]) {
			continue
		}
		cyc := append([]string{k[0], k[1]}, path...)
		// canonical name: rotate to the smallest element
		nodes := cyc[:len(cyc)-1]
		m := 0
		for i := range nodes {
			if nodes[i] < nodes[m] {
				m = i
			}
		}
		name := strings.Join(append(append([]string{}, nodes[m:]...), nodes[:m]...), "->")
		if reported[name] {
			continue
		}
		reported[name] = true
		detail := fmt.Sprintf("locks nested in both orders: %s held while taking %s in %s", k[0], k[1], d.lockEdges[k])
		for i := 1; i+1 < len(cyc); i++ {
			detail += fmt.Sprintf("; %s held while taking %s in %s", cyc[i], cyc[i+1], d.lockEdges[[2]string{cyc[i], cyc[i+1]}])
		}
		for _, p := range props {
			d.h.violate(p, "lock-order-cycle/"+name, detail, d.lastNow, d.step)
		}
	}
}
