package sim

import (
	"fmt"
	"time"
)

const (
	ms  = time.Millisecond
	sec = time.Second
)

// hWide: the lattice of the fault-injecting families; short intervals twice as likely as the long ones
// (per-refresh time-out max(H/2, 1s) switches at 2s; the fixed 2s/5s time-outs of the library lie inside)
var hWide = []time.Duration{50 * ms, 100 * ms, 200 * ms, 500 * ms, 1 * sec, 100 * ms, 500 * ms, 2 * sec, 3 * sec, 5 * sec}

var hLattice = []time.Duration{50 * ms, 100 * ms, 200 * ms, 500 * ms, 1 * sec, 2 * sec, 3 * sec, 5 * sec, 10 * sec}

// GenPlan builds the seed-th plan of a family.
func GenPlan(family string, seed uint64) *Plan {
	r := NewRng(seed, "gen/"+family)
	g, ok := families[family]
	if !ok {
		panic("unknown family " + family)
	}
	p := g(r)
	p.Seed = seed
	p.Family = family
	if family == "c09stop" {
		enumerateStopPoint(p, seed)
	}
	if family == "c02stop" {
		until, tail := p.Until, p.Tail
		enumerateStopPoint(p, seed)
		p.Until, p.Tail = until, tail
	}
	if p.Bucket == "" {
		p.Bucket = "leaders"
	}
	bareConfig(p, seed)
	sameIDConfig(p, seed)
	bigPrioConfig(p, seed)
	vodConfig(p, seed)
	bigThresholdConfig(p, seed)
	if r := NewRng(seed, "inlock/"+family); !p.Sched.Free && len(p.Insts) > 0 && p.Sched.InLock == 0 && p.Sched.YieldProb > 0 {
		switch family {
		case "faultfree", "mixed", "c08", "c05ack", "c07rounds", "c13", "ctxcancel", "stoprestart", "c12":
			share := 1.0 / 8
			if family == "c08" {
				share = 1.0 / 3 // coinciding demotion causes are where a lock-free reader meets a half-made transition
			}
			if r.Bool(share) {
				// goroutines parked inside critical sections and in front of atomic operations (pure
				// reorderings); the leadership flag is polled (see c11lock)
				p.Sched.InLock = Pick(r, []float64{0.1, 0.3})
				for i := range p.Insts {
					p.Insts[i].NoMetrics = true
				}
			}
		}
	}
	if r := NewRng(seed, "dialect/"+family); p.Store.Dialect == "" && !p.Sched.Free && len(p.Insts) > 0 && r.Bool(0.1) {
		// a store that words its refusals like internal/natsmock ("revision mismatch", "key not
		// found"): the library's other classification branch (family c03 has its own share)
		p.Store.Dialect = "mock"
	}
	return p
}

// vodConfig: in one plan out of five of the fault-free families the application calls
// ValidateToken / ValidateTokenOrDemote on its instances - at random moments and at the answer of
// the instance's own Creates (the moment of a promotion), leader or not: a worker that asks "do I
// still lead?" before each job does so on followers too. In fault-free operation none of these
// calls may cost a leader its term (C07). Drawn from a stream of its own.
func vodConfig(p *Plan, seed uint64) {
	switch p.Family {
	case "faultfree", "c07rounds", "c02restart":
	default:
		return
	}
	r := NewRng(seed, "vod/"+p.Family)
	if !r.Bool(1.0/5) || len(p.Insts) == 0 || p.Sched.Free {
		return
	}
	for k := 0; k < 2+r.Intn(5); k++ {
		a := Action{Kind: Pick(r, []string{AValidateOD, AValidateOD, AValidate}), Inst: r.Intn(len(p.Insts))}
		if r.Bool(0.5) {
			a.At = r.Dur(0, p.Until)
		} else {
			a.OpKind, a.OpN, a.Phase = "create", 1+r.Intn(3), Pick(r, []string{"return", "return", "apply"})
			a.Delay = Pick(r, []time.Duration{0, 0, r.Dur(0, 5*ms)})
		}
		p.Actions = append(p.Actions, a)
	}
	p.Note += " vod"
}

// bigThresholdConfig: in one c12 plan out of fifteen MaxConsecutiveFailures is a number beyond
// 32 bits ("never demote on health"; validateConfig accepts any non-negative value): the health
// mechanism must then never demote within a plan. Drawn from a stream of its own.
func bigThresholdConfig(p *Plan, seed uint64) {
	if p.Family != "c12" {
		return
	}
	r := NewRng(seed, "bigthreshold/"+p.Family)
	if !r.Bool(1.0 / 15) {
		return
	}
	m := Pick(r, []int{1 << 32, 1<<32 + 2, 1 << 31, 1<<40 + 1})
	for i := range p.Insts {
		if p.Insts[i].HasHealth {
			p.Insts[i].MaxHealth = m
		}
	}
	p.Note += " big-threshold"
}

// bigPrioConfig: in one plan out of ten of the families whose records are written by the
// elections only, every non-zero priority is moved up by 2^53. The order of the priorities is what
// it was; a comparison that goes through a float64 (or a 32-bit integer) on the way no longer
// sees that order. Drawn from a stream of its own.
func bigPrioConfig(p *Plan, seed uint64) {
	switch p.Family {
	case "mixed", "c10", "faultfree", "c10fault":
	default:
		return
	}
	for _, a := range p.Actions {
		if a.Kind == AOutPut {
			return
		}
	}
	r := NewRng(seed, "bigprio/"+p.Family)
	if !r.Bool(1.0 / 10) {
		return
	}
	any := false
	for i := range p.Insts {
		if p.Insts[i].Prio > 0 {
			p.Insts[i].Prio += 1 << 53
			any = true
		}
	}
	if any {
		p.Note += " big-prio"
	}
}

// sameIDConfig: in one plan out of eight of some families two instances of a group share one
// InstanceID (a replacement process started under the old name while the old process is still
// alive - paused, partitioned - and comes back). Only the fencing token tells the two apart.
// Such plans are judged by the oracles that identify writers by election object and token
// (C01, C05, C10's safety clause, C13); the oracles with time bounds attribute goroutines to
// instances through the InstanceID and are switched off for them.
func sameIDConfig(p *Plan, seed uint64) {
	switch p.Family {
	case "mixed", "pause", "c05ack", "c10":
	default:
		return
	}
	r := NewRng(seed, "sameid/"+p.Family)
	if !r.Bool(1.0/8) || len(p.Insts) < 2 {
		return
	}
	i := r.Intn(len(p.Insts))
	var same []int
	for j := range p.Insts {
		if j != i && p.Insts[j].Group == p.Insts[i].Group {
			same = append(same, j)
		}
	}
	if len(same) == 0 {
		return
	}
	j := same[r.Intn(len(same))]
	p.Insts[j].ID = p.Insts[i].ID
	p.NoJudge = append(p.NoJudge, "C02", "C03", "C04", "C06", "C07", "C08", "C09", "C11", "C12", "C17", "C18", "C19")
	p.Note += " same-id"
}

// bareConfig: in one plan out of six some instances are configured without the optional Metrics
// and/or Logger (both may legally be nil). Drawn from a stream of its own, so that the rest of the
// seed-th plan of a family is what it was before this variant existed.
func bareConfig(p *Plan, seed uint64) {
	if p.Sched.Free || len(p.Insts) == 0 {
		return
	}
	r := NewRng(seed, "bare/"+p.Family)
	if !r.Bool(1.0 / 6) {
		return
	}
	for i := range p.Insts {
		p.Insts[i].NoMetrics = r.Bool(0.6)
		p.Insts[i].NoLogger = r.Bool(0.6)
		p.Insts[i].CorrID = r.Bool(0.5)
	}
}

var families = map[string]func(*Rng) *Plan{}

func baseTiming(r *Rng, p *Plan, hs []time.Duration) {
	p.H = Pick(r, hs)
	switch r.Intn(5) {
	case 0:
		p.TTL = 3 * p.H
	case 1:
		p.TTL = 3*p.H + time.Duration(r.Intn(int(p.H/2)))
	case 2:
		p.TTL = 4 * p.H
	case 3:
		p.TTL = 5 * p.H
	default:
		p.TTL = 10 * p.H
	}
}

func instName(i int) string { return fmt.Sprintf("n%d", i+1) }

func mkInsts(r *Rng, n, groups int) []InstCfg {
	var out []InstCfg
	g1, g2 := "g1", "g2"
	if groups > 1 && r.Bool(0.25) {
		// free-text group names (any non-empty string is a valid configuration) that differ only in
		// characters a key sanitiser would fold together
		g1, g2 = Pick(r, [][2]string{{"team a", "team_a"}, {"team:a", "team a"}, {".edge", "_edge"}})[0], ""
		switch g1 {
		case "team a":
			g2 = "team_a"
		case "team:a":
			g2 = "team a"
		default:
			g2 = "_edge"
		}
	}
	for i := 0; i < n; i++ {
		g := g1
		if groups > 1 && i%groups == 1 {
			g = g2
		}
		c := InstCfg{ID: instName(i), Group: g, PromoteMode: Pick(r, []string{"block", "return", "return"})}
		out = append(out, c)
	}
	return out
}

// lateOnDemote makes some instances register OnDemote late (at a random time in the plan) or
// never; OnPromote is registered before Start as usual.
func lateOnDemote(r *Rng, p *Plan, prob float64) {
	for i := range p.Insts {
		if !p.Insts[i].NoCallbacks && r.Bool(prob) {
			if r.Bool(0.5) {
				p.Insts[i].OnDemoteAfter = -1
			} else {
				p.Insts[i].OnDemoteAfter = r.Dur(p.H, p.Until/2+p.H)
			}
		}
	}
}

// healthyStore: every invoke->return below bound (strictly).
func healthyStore(r *Rng, bound time.Duration) StoreCfg {
	// two legs, each up to bound/2 - 1
	hi := bound/2 - 1
	var reqHi, respHi time.Duration
	switch r.Intn(4) {
	case 0: // fast store
		reqHi, respHi = hi/50+1, hi/50+1
	case 1:
		reqHi, respHi = hi, hi/20+1
	case 2:
		reqHi, respHi = hi/20+1, hi
	default:
		reqHi, respHi = hi, hi
	}
	wd := Pick(r, []time.Duration{1 * ms, 20 * ms, 200 * ms, 1500 * ms})
	return StoreCfg{Req: [2]Dur{0, reqHi}, Resp: [2]Dur{0, respHi}, WatchDelay: [2]Dur{0, wd}}
}

// lifecycle: random start/stop/restart actions of the instances until `until`.
// statusCalls adds Status()/read calls of client goroutines: some at random times, some at the
// very instant of another action (a snapshot that overlaps a transition).
func statusCalls(r *Rng, p *Plan) {
	n := len(p.Actions)
	for k := 0; k < 2+r.Intn(6); k++ {
		a := Action{Kind: Pick(r, []string{AStatus, AReadAPI}), Inst: r.Intn(len(p.Insts))}
		if n > 0 && r.Bool(0.6) {
			b := p.Actions[r.Intn(n)]
			a.At, a.OpN, a.OpKind, a.Phase, a.Delay = b.At, b.OpN, b.OpKind, b.Phase, b.Delay
			if b.Kind != AOutPut && b.Kind != AOutDelete && b.Kind != AExpire {
				a.Inst = b.Inst
			}
		} else {
			a.At = r.Dur(0, p.Until)
		}
		p.Actions = append(p.Actions, a)
	}
}

func lifecycle(r *Rng, p *Plan, until time.Duration, allowCrash bool, stopKinds []string) {
	defer statusCalls(r, p)
	for i := range p.Insts {
		t := r.Dur(0, 300*ms)
		if r.Bool(0.3) {
			t = r.Dur(0, until/2)
		}
		p.Actions = append(p.Actions, Action{At: t, Kind: AStart, Inst: i})
		running := true
		n := r.Intn(4)
		for k := 0; k < n; k++ {
			t += r.Dur(10*ms, until/2)
			if t >= until {
				break
			}
			if running {
				k := Pick(r, stopKinds)
				a := Action{At: t, Kind: k, Inst: i}
				if k == AStopCtx {
					a.DeleteKey = r.Bool(0.6)
					a.WaitForDemote = r.Bool(0.5)
					a.Timeout = Pick(r, []time.Duration{0, 0, 1 * sec, 10 * sec})
					if r.Bool(0.3) {
						a.CtxTimeout = Pick(r, []time.Duration{1 * sec, 6 * sec, 20 * sec})
					}
				}
				if k == ACrash && !allowCrash {
					a.Kind = AStop
				}
				p.Actions = append(p.Actions, a)
				if a.Kind != ACrash && r.Bool(0.12) { // a second, concurrent stop call at the same instant
					b := a
					if r.Bool(0.5) {
						b.Kind, b.DeleteKey = AStopCtx, true
					}
					p.Actions = append(p.Actions, b)
				}
				running = false
			} else {
				k := AStart
				if r.Bool(0.5) {
					k = ARestart
				}
				p.Actions = append(p.Actions, Action{At: t, Kind: k, Inst: i})
				running = true
			}
		}
	}
}

func init() {
	// C02/C07 family: fault-free store, latency < H/2, arbitrary watch delays,
	// no takeover, no outsider, no monitor; lifecycle actions at arbitrary times.
	families["faultfree"] = func(r *Rng) *Plan {
		p := &Plan{Judge: []string{"C02", "C07", "C01", "C05", "C08", "C18", "C19", "C17"}}
		baseTiming(r, p, hLattice)
		n := 2 + r.Intn(4)
		p.Insts = mkInsts(r, n, 1)
		for i := range p.Insts {
			p.Insts[i].V = Pick(r, []time.Duration{0, p.H, 2 * p.H, 3 * p.H})
		}
		if r.Bool(0.25) {
			// everybody has the same priority, some with takeover enabled: equal priority never
			// preempts, so this is still "no priority preemption"
			pr := Pick(r, []int{1, 3, 5})
			for i := range p.Insts {
				p.Insts[i].Prio, p.Insts[i].Takeover = pr, r.Bool(0.5)
			}
		}
		p.Store = healthyStore(r, p.H/2)
		p.Until = r.Dur(3*p.TTL, 12*p.TTL) + 2*sec
		lifecycle(r, p, p.Until, false, []string{AStop, AStopCtx, AStopCtx})
		p.Tail = p.TTL + 2*sec
		// stalls of at most H/50: far inside the slack a correct implementation has (TTL >= 3H,
		// operations below H/2), long enough to let another goroutine's operation land in between
		p.Sched = SchedCfg{YieldProb: Pick(r, []float64{0, 0.05, 0.3}), StallMax: Pick(r, []time.Duration{0, 0, p.H / 50})}
		return p
	}

	// C01 family: everything except outsiders.
	families["mixed"] = func(r *Rng) *Plan {
		p := &Plan{Judge: []string{"C01", "C05", "C08", "C18", "C19", "C13", "C09"}}
		baseTiming(r, p, hWide)
		n := 2 + r.Intn(4)
		groups := 1 + r.Intn(2)
		p.Insts = mkInsts(r, n, groups)
		prios := []int{1, 2, 2, 3, 5}
		for i := range p.Insts {
			c := &p.Insts[i]
			c.V = Pick(r, []time.Duration{0, p.H, 2 * p.H})
			if r.Bool(0.5) {
				c.Prio = Pick(r, prios)
				c.Takeover = r.Bool(0.7)
			}
			c.Monitor = r.Bool(0.3)
		}
		p.Store = healthyStore(r, Pick(r, []time.Duration{p.H / 2, p.H, 3 * p.H}))
		p.Until = r.Dur(3*p.TTL, 10*p.TTL) + 3*sec
		lifecycle(r, p, p.Until, true, []string{AStop, AStopCtx, AStopCtx, ACrash})
		// faults
		nf := r.Intn(5)
		for k := 0; k < nf; k++ {
			from := r.Dur(0, p.Until)
			f := Fault{Inst: r.Intn(n+1) - 1, From: from, To: from + r.Dur(p.H/2, 2*p.TTL)}
			switch r.Intn(8) {
			case 0:
				f.Kind = FPartition
			case 1:
				f.Kind = FDropResp
				f.Prob = 0.5
			case 2:
				f.Kind = FDropReq
				f.Prob = 0.5
			case 3:
				f.Kind = FError
				f.Err = Pick(r, []string{"timeout", "noresponders", "closed", "deadline"})
				f.Prob = 0.7
			case 4:
				f.Kind = FWatchDrop
			case 5:
				f.Kind = FWatchHold
			case 6:
				f.Kind = FSlow
				f.Arg = r.Dur(p.H/2, 2*p.H)
			case 7:
				f.Kind = FWatchFail
				f.Err = "timeout"
			}
			p.Faults = append(p.Faults, f)
		}
		p.Tail = p.TTL + 3*sec
		p.Sched = SchedCfg{YieldProb: Pick(r, []float64{0, 0.1, 0.4}), StallMax: Pick(r, []time.Duration{0, 0, p.H / 20})}
		lateOnDemote(r, p, 0.1)
		return p
	}
}

func init() {
	// C03 family: one leader; at heartbeat attempt k a fault begins: store unreachable in one
	// of several ways, or the record is replaced / deleted / expired underneath. No health
	// checker, no connection monitor; validation at its default or at multiples of H.
	families["c03"] = func(r *Rng) *Plan {
		p := &Plan{Judge: []string{"C03", "C08", "C19", "C18", "C05"}}
		baseTiming(r, p, []time.Duration{100 * ms, 200 * ms, 500 * ms, 1 * sec, 2 * sec, 3 * sec, 5 * sec})
		p.Insts = []InstCfg{{ID: "n1", Group: "g1", PromoteMode: Pick(r, []string{"block", "return"}), V: Pick(r, []time.Duration{0, 0, 3 * p.H, 10 * p.H})}}
		// latency envelope: mostly healthy, sometimes up to the heartbeat time-out
		p.Store = healthyStore(r, Pick(r, []time.Duration{p.H / 2, p.H / 2, hbTimeout(p.H)}))
		p.Actions = append(p.Actions, Action{At: r.Dur(0, 50*ms), Kind: AStart, Inst: 0})
		k := r.Intn(9)
		t0 := time.Duration(k+1)*p.H + r.Dur(0, p.H) // somewhere inside attempt k's period
		T := hbTimeout(p.H)
		kind := r.Intn(10)
		switch kind {
		case 0: // immediate errors
			p.Faults = append(p.Faults, Fault{Kind: FError, Inst: 0, Op: "update", From: t0, Err: Pick(r, []string{"timeout", "noresponders", "closed", "deadline", "disconnected"})})
		case 1: // hang until time-out
			p.Faults = append(p.Faults, Fault{Kind: FHang, Inst: 0, Op: "update", From: t0})
		case 2: // acknowledgement lost after the write was applied
			p.Faults = append(p.Faults, Fault{Kind: FDropResp, Inst: 0, Op: "update", From: t0})
		case 3: // permanent partition
			p.Faults = append(p.Faults, Fault{Kind: FPartition, Inst: 0, From: t0})
		case 4: // a window of failures shorter or longer than three attempts
			p.Faults = append(p.Faults, Fault{Kind: Pick(r, []string{FHang, FError, FDropResp}), Inst: 0, Op: "update", From: t0, To: t0 + r.Dur(p.H, 4*p.H+3*T), Err: "timeout"})
		case 5: // record replaced by an outsider with a well-formed foreign payload
			p.Actions = append(p.Actions, Action{At: t0, Kind: AOutPut, Key: "g1", Value: []byte(`{"id":"intruder","token":"00000000-0000-4000-8000-000000000001","priority":7}`)})
		case 6: // record deleted
			p.Actions = append(p.Actions, Action{At: t0, Kind: AOutDelete, Key: "g1"})
		case 7: // record expires underneath
			p.Actions = append(p.Actions, Action{At: t0, Kind: AExpire, Key: "g1"})
		case 8: // preempted by a higher-priority instance
			p.Insts[0].Prio = 1
			p.Insts = append(p.Insts, InstCfg{ID: "n2", Group: "g1", Prio: 5, Takeover: true, PromoteMode: "return"})
			p.Actions = append(p.Actions, Action{At: t0, Kind: AStart, Inst: 1})
		case 9: // slow store: latencies around the time-out
			p.Faults = append(p.Faults, Fault{Kind: FSlow, Inst: 0, Op: "update", From: t0, Arg: r.Dur(T/2, 2*T)})
		}
		if kind >= 5 && kind <= 8 && r.Bool(0.3) {
			// the refresh just before the loss fails transiently without being applied: the refusal
			// that follows names a revision one above the presented one - as it would if that refresh
			// had been applied after all
			p.Faults = append(p.Faults, Fault{Kind: FError, Inst: 0, Op: "update", OpN: k + 1, Err: Pick(r, []string{"timeout", "noresponders"})})
		}
		// the record is lost and, from that moment, every read of the instance hangs or is slow:
		// whatever the instance reads on its way to the demotion must not hold the demotion up
		if kind >= 5 && kind <= 8 && r.Bool(0.3) {
			p.Faults = append(p.Faults, Fault{Kind: Pick(r, []string{FHang, FSlow}), Inst: 0, Op: "get", From: t0, Arg: r.Dur(T, 3*T)})
		}
		// a share of the plans speaks natsmock's error texts ("revision mismatch", "key not found"),
		// which take the heartbeat through its other classification branch
		if r.Bool(0.15) {
			p.Store.Dialect = "mock"
		}
		p.Note = fmt.Sprintf("fault kind %d at attempt %d", kind, k)
		p.Until = t0 + 4*p.H + 5*T + p.TTL
		if (kind == 6 || kind == 7) && r.Bool(0.4) {
			// the vacancy is the instance's own to fill: it leads again within a second, possibly
			// while the application's OnDemote for the term just lost is still running - and the
			// record of that second term is lost as well, a few heartbeats into it
			p.Insts[0].DemoteDur = Pick(r, []time.Duration{0, r.Dur(700*ms, 2*sec), r.Dur(2*sec, 2*sec+6*p.H)})
			t1 := t0 + p.H + T + r.Dur(800*ms, 1500*ms+3*p.H)
			p.Actions = append(p.Actions, Action{At: t1, Kind: Pick(r, []string{AOutDelete, AExpire, AOutPut}), Key: "g1", Value: []byte(`{"id":"intruder","token":"00000000-0000-4000-8000-000000000002","priority":7}`)})
			p.Until = t1 + 4*p.H + 5*T + p.TTL
			p.Note += " second loss"
		}
		lateOnDemote(r, p, 0.15)
		p.Tail = 0
		p.Sched = SchedCfg{YieldProb: Pick(r, []float64{0, 0.2}), StallMax: Pick(r, []time.Duration{0, 0, p.H / 50})}
		return p
	}
}

func init() {
	// C12 family: scripted health results around term boundaries; fault-free store; TTL large
	// enough that an unhealthy streak below the threshold never lets the record lapse.
	families["c12"] = func(r *Rng) *Plan {
		p := &Plan{Judge: []string{"C12", "C08", "C19", "C18"}}
		p.H = Pick(r, []time.Duration{50 * ms, 100 * ms, 200 * ms, 500 * ms})
		m := r.Intn(7) // 0 = default 3
		mm := m
		if mm == 0 {
			mm = 3
		}
		p.TTL = time.Duration(mm+3+r.Intn(3)) * p.H
		if mm >= 4 && r.Bool(0.25) {
			// threshold larger than TTL/H: the record lapses during a long unhealthy streak, the
			// count still decides when the health mechanism demotes
			p.TTL = Pick(r, []time.Duration{3 * p.H, 4 * p.H})
		}
		n := 1 + r.Intn(2)
		blockers, slowDemote := r.Bool(0.25), r.Bool(0.25)
		for i := 0; i < n; i++ {
			c := InstCfg{ID: instName(i), Group: "g1", HasHealth: true, MaxHealth: m, HealthRest: "h", PromoteMode: Pick(r, []string{"block", "return"}), V: Pick(r, []time.Duration{0, 4 * p.H})}
			// script: streaks of length m-1, m, m+1 separated by healthy stretches; 's' = slow
			var sb []byte
			for k := 0; k < 6+r.Intn(10); k++ {
				healthy := r.Intn(4)
				for j := 0; j < healthy; j++ {
					sb = append(sb, 'h')
				}
				streak := mm - 1 + r.Intn(3)
				if r.Bool(0.2) {
					streak = r.Intn(mm + 2)
				}
				for j := 0; j < streak; j++ {
					if r.Bool(0.2) {
						sb = append(sb, 's')
					} else {
						sb = append(sb, 'u')
					}
				}
				if r.Bool(0.3) {
					sb = append(sb, 'S') // a healthy answer that comes after the check's deadline
				}
			}
			if blockers {
				// a probe without a deadline: some results come only after HealthBlock, whatever the
				// context says (the verdict of a tick may then arrive in a later term)
				c.HealthBlock = Pick(r, []time.Duration{2 * p.H, 5 * p.H, p.TTL + p.H})
				c.V = Pick(r, []time.Duration{p.H, 2 * p.H})
				for j := range sb {
					if r.Bool(0.12) {
						if sb[j] == 'h' {
							sb[j] = 'B'
						} else if sb[j] == 'u' {
							sb[j] = 'b'
						}
					}
				}
			}
			if slowDemote {
				// the application's OnDemote takes longer than a re-election: the term that follows
				// begins (and counts) while the previous term's callback is still running
				c.DemoteDur = p.TTL + r.Dur(2*p.H, 8*p.H)
			}
			c.Health = string(sb)
			p.Insts = append(p.Insts, c)
			p.Actions = append(p.Actions, Action{At: r.Dur(0, 100*ms), Kind: AStart, Inst: i})
		}
		p.Store = healthyStore(r, p.H/2)
		p.Store.WatchDelay = [2]Dur{0, Pick(r, []time.Duration{1 * ms, 50 * ms})}
		// in some plans the store fails refreshes now and then (never three in a row on purpose:
		// the oracle only judges demotions made by the health mechanism, but a second demotion
		// cause in the same term is exactly where counting goes wrong)
		if r.Bool(0.4) {
			p.TTL += 4 * p.H
			p.Faults = append(p.Faults, Fault{Kind: FError, Inst: -1, Op: "update", From: 0, To: 0, Err: Pick(r, []string{"timeout", "noresponders"}), Prob: Pick(r, []float64{0.15, 0.3})})
		}
		// in some plans a refresh now and then is answered late - later than the next tick, still
		// inside its time-out (1s for these intervals): the loop falls behind, works off the tick
		// that was waiting and meets the following one early. Every tick still is one health report.
		if r.Bool(0.35) {
			p.TTL += 4 * p.H
			hi := 2 * p.H
			if hi > 900*ms-p.H/2 {
				hi = 900*ms - p.H/2
			}
			if hi > p.H {
				p.Faults = append(p.Faults, Fault{Kind: FSlow, Inst: -1, Op: "update", From: 0, To: 0, Arg: r.Dur(p.H, hi), Prob: Pick(r, []float64{0.1, 0.25})})
			}
		}
		// long enough to consume the scripts over several terms (each demotion costs ~TTL)
		p.Until = time.Duration(len(p.Insts[0].Health)+10)*p.H + 8*p.TTL
		// connection notifications in the middle of unhealthy streaks (monitored instances): a
		// reconnect and its successful verification are no healthy result
		if r.Bool(0.4) {
			for i := range p.Insts {
				p.Insts[i].Monitor = true
				p.Insts[i].Grace = time.Hour // never fires: only the notifications and the verification matter here
			}
			for k := 0; k < 3+r.Intn(10); k++ {
				p.Actions = append(p.Actions, Action{At: r.Dur(p.H, p.Until), Kind: Pick(r, []string{AReconnect, AReconnect, ADisconnect}), Inst: r.Intn(n)})
			}
		}
		// terms that end for another reason in the middle of an unhealthy streak (the record is
		// removed, or the instance is stopped and started again): the next term counts from zero
		if r.Bool(0.5) {
			for k := 0; k < 2+r.Intn(5); k++ {
				t := r.Dur(2*p.H, p.Until-p.TTL)
				if r.Bool(0.7) {
					p.Actions = append(p.Actions, Action{At: t, Kind: Pick(r, []string{AOutDelete, AExpire}), Key: "g1"})
				} else {
					i := r.Intn(n)
					p.Actions = append(p.Actions, Action{At: t, Kind: Pick(r, []string{AStop, AStopCtx}), Inst: i, DeleteKey: true})
					p.Actions = append(p.Actions, Action{At: t + r.Dur(p.H, 3*p.H), Kind: AStart, Inst: i})
				}
			}
		}
		for i := range p.Faults {
			p.Faults[i].To = p.Until // the tail is fault-free
		}
		p.Tail = p.TTL + 2*sec
		p.Sched = SchedCfg{YieldProb: Pick(r, []float64{0, 0.2})}
		return p
	}
}

// ---- record contents (C04, C13) ----

// payloadShapes returns arbitrary record values. $ID/$TOKEN are replaced at action time by
// the id/token of the live record, $SELF by the id of the action's instance.
func payloadShapes(r *Rng) []byte {
	long := make([]byte, 0, 1<<20)
	shapes := []func() []byte{
		func() []byte { return []byte{} },
		func() []byte { return []byte("x") },
		func() []byte { return []byte("{") },
		func() []byte { return []byte(`{"id":"$ID","token":"$TOK`) }, // truncated
		func() []byte { return []byte("null") },
		func() []byte { return []byte("[]") },
		func() []byte { return []byte("123") },
		func() []byte { return []byte(`"just a string"`) },
		func() []byte { return []byte(`{}`) },
		func() []byte { return []byte(`{"id":1,"token":2}`) },
		func() []byte { return []byte(`{"id":null,"token":null}`) },
		func() []byte { return []byte(`{"id":"$ID"}`) },
		func() []byte { return []byte(`{"token":"$TOKEN"}`) },
		func() []byte { return []byte(`{"id":["$ID"],"token":{"v":"$TOKEN"}}`) },
		func() []byte { return []byte(`{"id":true,"token":"$TOKEN"}`) },
		func() []byte { return []byte(`{"id":"$ID","token":false}`) },
		func() []byte { return []byte(`{"ID":"$ID","TOKEN":"$TOKEN"}`) },
		func() []byte { return []byte(`{"Id":"$ID","Token":"$TOKEN","Priority":9}`) },
		func() []byte { return []byte(`{"id":"zzz","id":"$ID","token":"$TOKEN"}`) },
		func() []byte { return []byte(`{"id":"$ID","token":"x","token":"$TOKEN"}`) },
		func() []byte { return []byte(`{"id":"$ID","token":"$TOKEN","priority":"high"}`) },
		func() []byte { return []byte(`{"id":"$ID","token":"$TOKEN","priority":-5}`) },
		func() []byte { return []byte(`{"id":"$ID","token":"$TOKEN","priority":99999999999999999999}`) },
		func() []byte { return []byte(`{"id":"","token":""}`) },
		func() []byte { return []byte(`{"id":"$ID","token":""}`) },
		func() []byte { return []byte(`{"id":"$ID","token":"$TOKEN"}`) },                                 // same as live (new revision)
		func() []byte { return []byte(`{"id":"$SELF","token":"00000000-0000-4000-8000-00000000abcd"}`) }, // own id, other token
		func() []byte { return []byte(`{"id":"intruder","token":"$TOKEN","priority":3}`) },               // other id, live token
		func() []byte {
			return []byte(`{"id":"intruder","token":"00000000-0000-4000-8000-000000000001","priority":7}`)
		},
		func() []byte { return []byte(`{"id":"intruder","token":"00000000-0000-4000-8000-000000000002"}`) },
		func() []byte { return []byte(" \n\t") },
		func() []byte { return []byte{0xff, 0xfe, 0x00, 0x01} },
		func() []byte { return []byte(`{"id":"\ud800","token":"\u0000"}`) },
		func() []byte { // deeply nested
			n := 12000
			b := make([]byte, 0, 2*n)
			for i := 0; i < n; i++ {
				b = append(b, '[')
			}
			for i := 0; i < n; i++ {
				b = append(b, ']')
			}
			return b
		},
		func() []byte { // very large
			long = append(long, []byte(`{"id":"$ID","token":"$TOKEN","pad":"`)...)
			for len(long) < 1<<20 {
				long = append(long, 'a')
			}
			return append(long, '"', '}')
		},
		func() []byte { // random bytes
			b := make([]byte, 1+r.Intn(40))
			for i := range b {
				b[i] = byte(r.U64())
			}
			return b
		},
	}
	return Pick(r, shapes)()
}

func init() {
	// C13: arbitrary record contents and outside interference.
	families["c13"] = func(r *Rng) *Plan {
		p := &Plan{Judge: []string{"C13"}}
		baseTiming(r, p, hWide)
		n := 1 + r.Intn(4)
		p.Insts = mkInsts(r, n, 1)
		for i := range p.Insts {
			c := &p.Insts[i]
			c.V = Pick(r, []time.Duration{0, p.H, 2 * p.H})
			if r.Bool(0.6) {
				c.Prio = Pick(r, []int{1, 2, 3, 5})
				c.Takeover = r.Bool(0.8)
			}
			p.Actions = append(p.Actions, Action{At: r.Dur(0, 2*p.H), Kind: AStart, Inst: i})
		}
		p.Store = healthyStore(r, Pick(r, []time.Duration{p.H / 2, p.H / 2, p.H}))
		p.Until = r.Dur(4*p.TTL, 10*p.TTL) + 2*sec
		// the outsider may write before anybody started (followers/candidates meet odd bytes first)
		m := 1 + r.Intn(6)
		for k := 0; k < m; k++ {
			t := r.Dur(0, p.Until)
			if k == 0 && r.Bool(0.3) {
				t = 0
			}
			if r.Bool(0.2) {
				p.Actions = append(p.Actions, Action{At: t, Kind: AOutDelete, Key: "g1"})
			} else {
				p.Actions = append(p.Actions, Action{At: t, Kind: AOutPut, Key: "g1", Value: payloadShapes(r), Inst: r.Intn(n)})
			}
		}
		p.Tail = 0
		p.Sched = SchedCfg{YieldProb: Pick(r, []float64{0, 0.2}), StallMax: 0}
		if r.Bool(0.25) {
			// a goroutine held up (up to 300 ms) inside the application's Logger or between a
			// takeover's read and its write, while the outsider rewrites the record
			p.Sched = SchedCfg{YieldProb: 0.6, StallMax: 300 * ms, StallSites: []string{"app.logger", "takeover.read"}}
		}
		if r.Bool(0.25) {
			// connection notifications on top: the reconnect verification meets the odd bytes too
			for i := range p.Insts {
				p.Insts[i].Monitor, p.Insts[i].Grace = true, Pick(r, []time.Duration{time.Hour, 3 * p.H})
			}
			for k := 0; k < 3+r.Intn(8); k++ {
				p.Actions = append(p.Actions, Action{At: r.Dur(p.H, p.Until), Kind: Pick(r, []string{AReconnect, AReconnect, ADisconnect, AClosed}), Inst: r.Intn(n)})
			}
		}
		if r.Bool(0.4) {
			// the outsider rewrites the record the moment an instance's own write (Create, or the
			// takeover's Update) has been applied, i.e. while that instance is about to be promoted
			// and its follower-side code (watcher, periodic check) is still running; goroutines are
			// preempted often, with small stalls
			for i := 0; i < n; i++ {
				for _, kind := range []string{"create", "update"} {
					if r.Bool(0.7) {
						p.Actions = append(p.Actions, Action{Kind: AOutPut, Key: "g1", Inst: i, OpKind: kind, OpN: 1 + r.Intn(3), Phase: "apply", Delay: Pick(r, []time.Duration{1, 1, ms}),
							Value: Pick(r, [][]byte{[]byte(`{"id":"intruder","token":"00000000-0000-4000-8000-000000000001","priority":7}`), payloadShapes(r)})})
					}
				}
			}
			p.Actions = append(p.Actions, Action{At: r.Dur(p.H, 4*p.H), Kind: AOutDelete, Key: "g1"})
			p.Sched = SchedCfg{YieldProb: Pick(r, []float64{0.4, 0.7}), StallMax: Pick(r, []time.Duration{0, p.H / 20, p.H / 4})}
		}
		return p
	}

	// C04: validation calls racing with changes of ownership, odd payloads, faults on the read
	// and context deadlines.
	families["c04"] = func(r *Rng) *Plan {
		p := &Plan{Judge: []string{"C04"}}
		baseTiming(r, p, hWide)
		n := 1 + r.Intn(3)
		p.Insts = mkInsts(r, n, 1)
		for i := range p.Insts {
			c := &p.Insts[i]
			c.V = Pick(r, []time.Duration{0, 0, p.H, 3 * p.H})
			if r.Bool(0.4) {
				c.Prio = Pick(r, []int{1, 2, 3, 5})
				c.Takeover = r.Bool(0.8)
			}
			p.Actions = append(p.Actions, Action{At: r.Dur(0, 2*p.H), Kind: AStart, Inst: i})
		}
		lat := Pick(r, []time.Duration{p.H / 2, p.H, 2 * sec})
		p.Store = healthyStore(r, lat)
		p.Until = r.Dur(3*p.TTL, 8*p.TTL) + 2*sec
		// validation calls
		nv := 3 + r.Intn(12)
		for k := 0; k < nv; k++ {
			a := Action{At: r.Dur(0, p.Until), Kind: Pick(r, []string{AValidate, AValidateOD}), Inst: r.Intn(n)}
			switch r.Intn(5) {
			case 0:
				a.CtxCancelled = true
			case 1:
				a.CtxTimeout = r.Dur(1, lat) // may expire before/at/after the response
			case 2:
				a.CtxTimeout = lat + r.Dur(0, lat)
			}
			p.Actions = append(p.Actions, a)
		}
		// adversary
		m := r.Intn(5)
		for k := 0; k < m; k++ {
			t := r.Dur(0, p.Until)
			switch r.Intn(4) {
			case 0:
				p.Actions = append(p.Actions, Action{At: t, Kind: AOutDelete, Key: "g1"})
			case 1:
				p.Actions = append(p.Actions, Action{At: t, Kind: AExpire, Key: "g1"})
			default:
				p.Actions = append(p.Actions, Action{At: t, Kind: AOutPut, Key: "g1", Value: payloadShapes(r), Inst: r.Intn(n)})
			}
		}
		// faults on reads
		if r.Bool(0.5) {
			from := r.Dur(0, p.Until)
			f := Fault{Inst: -1, Op: "get", From: from, To: from + r.Dur(p.H, 2*p.TTL), Prob: 0.6}
			switch r.Intn(4) {
			case 0:
				f.Kind, f.Err = FError, Pick(r, []string{"timeout", "noresponders", "closed", "permission"})
			case 1:
				f.Kind = FHang
			case 2:
				f.Kind = FDropResp
			default:
				f.Kind, f.Arg = FSlow, r.Dur(lat, 3*lat)
			}
			p.Faults = append(p.Faults, f)
		}
		if r.Bool(0.35) {
			// connection monitoring: disconnect notifications (a grace period is pending), some followed
			// by a reconnect; validation calls land inside the grace period, some with a read that fails
			for i := range p.Insts {
				p.Insts[i].Monitor = true
				p.Insts[i].Grace = Pick(r, []time.Duration{0, 2 * p.H, 2*p.H + 5*sec, 3*p.H + 1})
			}
			for k := 0; k < 1+r.Intn(3); k++ {
				i := r.Intn(n)
				td := r.Dur(2*p.H, p.Until)
				p.Actions = append(p.Actions, Action{At: td, Kind: ADisconnect, Inst: i})
				g := 3 * p.H
				if g < 5*sec {
					g = 5 * sec
				}
				for j := 0; j < 1+r.Intn(3); j++ {
					a := Action{At: td + r.Dur(0, g), Kind: Pick(r, []string{AValidateOD, AValidateOD, AValidate}), Inst: i}
					switch r.Intn(4) {
					case 0:
						a.CtxCancelled = true
					case 1:
						p.Faults = append(p.Faults, Fault{Kind: Pick(r, []string{FError, FHang}), Err: Pick(r, []string{"timeout", "noresponders", "closed"}), Inst: i, Op: "get", From: a.At - 1, To: a.At + lat + 1})
					case 2:
						a.CtxTimeout = r.Dur(1, lat)
					}
					p.Actions = append(p.Actions, a)
				}
				if r.Bool(0.4) {
					p.Actions = append(p.Actions, Action{At: td + r.Dur(0, 2*g), Kind: AReconnect, Inst: i})
				}
			}
		}
		p.Tail = 0
		p.Sched = SchedCfg{YieldProb: Pick(r, []float64{0, 0.2}), StallMax: 0}
		if r.Bool(0.35) {
			// the record is replaced at the very moment one of the instance's Creates is applied,
			// and the application validates at the moment that Create is answered: the call ends
			// a term whose OnPromote may not have had its turn yet (wave 18)
			for k := 0; k < 1+r.Intn(3); k++ {
				i, kth := r.Intn(n), Pick(r, []int{1, 1, 1, 2, 3})
				p.Actions = append(p.Actions, Action{Kind: AOutPut, Key: "g1", Value: []byte(`{"id":"intruder","token":"00000000-0000-4000-8000-000000000009","priority":9}`),
					OnInst: i + 1, OpKind: "create", OpN: kth, Phase: "apply"})
				p.Actions = append(p.Actions, Action{Kind: AValidateOD, Inst: i, OpKind: "create", OpN: kth, Phase: "return", Delay: Pick(r, []time.Duration{0, r.Dur(0, 2*ms), r.Dur(0, lat), r.Dur(0, 4*lat)})})
			}
			// (the OnPromote goroutine - or an earlier demotion's, in the application's Logger -
			// held up for about a store round trip: its turn in the callback order has not come
			// when the validation call ends the term)
			p.Sched.YieldProb = Pick(r, []float64{0.2, 0.5})
			p.Sched.StallMax = Pick(r, []time.Duration{2 * lat, 4 * lat})
		}
		return p
	}
}

func init() {
	// C11: connection notifications (flapping, timing lattice around the grace period), with or
	// without a matching store partition, ownership changes during the outage, and stops.
	families["c11"] = func(r *Rng) *Plan {
		p := &Plan{Judge: []string{"C11"}}
		p.H = Pick(r, []time.Duration{100 * ms, 200 * ms, 500 * ms, 1 * sec, 2 * sec})
		p.TTL = Pick(r, []time.Duration{3 * p.H, 5 * p.H, 10 * p.H, 30 * p.H})
		n := 1 + r.Intn(2)
		p.Insts = mkInsts(r, n, 1)
		for i := range p.Insts {
			c := &p.Insts[i]
			c.Monitor = true
			c.Grace = Pick(r, []time.Duration{0, 2 * p.H, 2*p.H + 1, 3 * p.H, 10 * p.H})
			c.V = Pick(r, []time.Duration{0, 0, 2 * p.H})
			c.DemoteDur = Pick(r, []time.Duration{0, 0, 10 * ms})
			p.Actions = append(p.Actions, Action{At: time.Duration(i) * r.Dur(0, 50*ms), Kind: AStart, Inst: i})
		}
		p.Store = healthyStore(r, Pick(r, []time.Duration{p.H / 2, p.H / 10}))
		G := graceOf(p, p.Insts[0])
		t := r.Dur(2*p.H, 6*p.H)
		m := 1 + r.Intn(8)
		partitioned := false
		for k := 0; k < m; k++ {
			kind := Pick(r, []string{ADisconnect, ADisconnect, AReconnect, AReconnect, AClosed})
			p.Actions = append(p.Actions, Action{At: t, Kind: kind, Inst: 0})
			if kind == ADisconnect && r.Bool(0.4) && !partitioned {
				to := t + Pick(r, []time.Duration{G / 2, G, 2 * G})
				p.Faults = append(p.Faults, Fault{Kind: FPartition, Inst: 0, From: t, To: to})
				partitioned = true
			}
			if r.Bool(0.25) { // ownership changes during the outage
				at := t + r.Dur(0, G)
				switch r.Intn(3) {
				case 0:
					p.Actions = append(p.Actions, Action{At: at, Kind: AOutDelete, Key: "g1"})
				case 1:
					p.Actions = append(p.Actions, Action{At: at, Kind: AOutPut, Key: "g1", Value: []byte(`{"id":"intruder","token":"00000000-0000-4000-8000-000000000001","priority":7}`)})
				default:
					p.Actions = append(p.Actions, Action{At: at, Kind: AExpire, Key: "g1"})
				}
			}
			// gaps on a lattice around the grace period
			t += Pick(r, []time.Duration{G - 1, G, G + 1, G / 2, G / 10, 2 * G, r.Dur(1, 2*G), 100*ms - 1, 100 * ms, 100*ms + 1})
		}
		if r.Bool(0.4) {
			a := Action{At: r.Dur(2*p.H, t+G), Kind: Pick(r, []string{AStop, AStopCtx}), Inst: 0}
			if r.Bool(0.3) { // exactly at a grace expiry
				a.At = p.Actions[n].At + G
			}
			if a.Kind == AStopCtx {
				a.DeleteKey = r.Bool(0.5)
				a.WaitForDemote = r.Bool(0.5)
			}
			p.Actions = append(p.Actions, a)
		}
		p.Until = t + 2*G + 3*sec
		if r.Bool(0.15) {
			// a reconnect whose verification read is answered only after a stop call has given up
			// waiting for it (client time-out 15 s, answer after 5.5-9 s, Stop's cap is 5 s): the
			// read in flight may finish, nothing new may follow it
			p.Store.ClientTimeout = 15 * sec
			tr := r.Dur(2*p.H, 6*p.H)
			p.Actions = append(p.Actions, Action{At: tr, Kind: AReconnect, Inst: 0})
			p.Faults = append(p.Faults, Fault{Kind: FSlow, Inst: 0, Op: "get", From: tr, To: tr + 300*ms, Arg: r.Dur(5500*ms, 9*sec)})
			p.Actions = append(p.Actions, Action{At: tr + r.Dur(120*ms, 400*ms), Kind: Pick(r, []string{AStop, AStop, AStopCtx}), Inst: 0, Timeout: 2 * sec})
			if p.Until < tr+12*sec {
				p.Until = tr + 12*sec
			}
			p.Judge = []string{"C09"}
		}
		p.Tail = 0
		p.Sched = SchedCfg{YieldProb: Pick(r, []float64{0, 0.3}), StallMax: 0}
		return p
	}
}

func init() {
	// C10 promptness family: fault-free, latency and watch delay <= H/10, all assignments of
	// priorities from {1,2,2,3,5} and takeover flags, all start orders with random gaps.
	families["c10"] = func(r *Rng) *Plan {
		p := &Plan{Judge: []string{"C10"}}
		p.H = Pick(r, []time.Duration{100 * ms, 200 * ms, 500 * ms, 1 * sec, 2 * sec})
		p.TTL = Pick(r, []time.Duration{3 * p.H, 4 * p.H, 5 * p.H, 10 * p.H})
		n := 2 + r.Intn(4)
		p.Insts = mkInsts(r, n, 1)
		prios := []int{1, 2, 2, 3, 5}
		for i := range p.Insts {
			c := &p.Insts[i]
			c.Prio = Pick(r, prios)
			c.Takeover = r.Bool(0.7)
			c.V = Pick(r, []time.Duration{0, p.H, 3 * p.H})
			c.PromoteMode = "return"
			p.Actions = append(p.Actions, Action{At: r.Dur(0, 4*p.H), Kind: AStart, Inst: i})
		}
		hi := p.H/20 - 1
		p.Store = StoreCfg{Req: [2]Dur{0, hi}, Resp: [2]Dur{0, hi}, WatchDelay: [2]Dur{0, p.H / 10}}
		p.Until = 4*p.H + time.Duration(n)*4*p.H + 8*p.H + 2*sec
		p.Sched = SchedCfg{YieldProb: Pick(r, []float64{0, 0.2})}
		if r.Bool(0.3) {
			// late in the plan one instance is shut down gracefully with key deletion: if it is the
			// leader, leadership moves on to the best of the rest; if it is not, nothing changes
			p.Actions = append(p.Actions, Action{At: p.Until - r.Dur(6*p.H, 9*p.H), Kind: AStopCtx, Inst: r.Intn(n), DeleteKey: true, WaitForDemote: r.Bool(0.5)})
		}
		if r.Bool(0.4) {
			// slow processes while everybody starts: takers stall up to 2H between a takeover's
			// read and its write, so that the incumbent's refresh lands in between and whole
			// acquisition rounds are refused; the stalls end at 4H+2s (after every round that a start triggers) and the promptness clause is
			// judged from then on
			p.Sched = SchedCfg{YieldProb: Pick(r, []float64{0.6, 0.9}), StallMax: 2 * p.H, StallUntil: 4*p.H + 2*sec, StallSites: []string{"takeover.read"}}
		}
		return p
	}
}

func init() {
	// C06: the leader is removed at an arbitrary step; any subset of watch events is dropped
	// or delayed; transient failures of Watch/Get/Create on the candidates, then recovery.
	families["c06"] = func(r *Rng) *Plan {
		p := &Plan{Judge: []string{"C06"}}
		baseTiming(r, p, hWide)
		if r.Bool(0.15) {
			// a candidate whose demotion callback is slow: it was a follower, then led, was preempted
			// by a higher-priority instance (which it learns from its watch), and while its OnDemote
			// is still running the preemptor shuts down with key deletion: the vacancy must be filled
			// by it all the same
			p.Insts = []InstCfg{
				{ID: "n1", Group: "g1", Prio: 1, PromoteMode: "return", DemoteDur: Pick(r, []time.Duration{3 * sec, 6 * sec})},
				{ID: "n2", Group: "g1", Prio: 1, PromoteMode: "return"},
				{ID: "n3", Group: "g1", Prio: 5, Takeover: true, PromoteMode: "return"},
			}
			p.Store = healthyStore(r, Pick(r, []time.Duration{p.H / 2, 100 * ms, 20 * ms}))
			p.Store.WatchDelay = [2]Dur{0, Pick(r, []time.Duration{0, 10 * ms})}
			t1 := r.Dur(2*p.H, 4*p.H)
			t2 := t1 + p.TTL + r.Dur(2*sec, 4*sec)
			t3 := t2 + r.Dur(500*ms, 2500*ms)
			p.Actions = []Action{
				{At: 0, Kind: AStart, Inst: 1},
				{At: r.Dur(10*ms, p.H), Kind: AStart, Inst: 0},
				{At: t1, Kind: AStopCtx, Inst: 1, DeleteKey: true},
				{At: t2, Kind: AStart, Inst: 2},
				{At: t3, Kind: AStopCtx, Inst: 2, DeleteKey: true, WaitForDemote: r.Bool(0.5)},
			}
			p.Until = t3 + 8*sec
			p.Tail = p.TTL + 2*sec
			p.Sched = SchedCfg{YieldProb: Pick(r, []float64{0, 0.2})}
			return p
		}
		n := 2 + r.Intn(4)
		p.Insts = mkInsts(r, n, 1)
		for i := range p.Insts {
			p.Insts[i].V = Pick(r, []time.Duration{0, p.H, 3 * p.H})
			p.Actions = append(p.Actions, Action{At: time.Duration(i) * r.Dur(1*ms, 30*ms), Kind: AStart, Inst: i})
		}
		// priorities: candidates that may not preempt the leader (equal or lower priority, or
		// takeover disabled) must still be there when the record becomes vacant
		if r.Bool(0.4) {
			p.Insts[0].Prio = 3
			p.Insts[0].Takeover = r.Bool(0.5)
			for i := 1; i < n; i++ {
				p.Insts[i].Prio = Pick(r, []int{1, 2, 3, 3})
				p.Insts[i].Takeover = r.Bool(0.7)
			}
		}
		p.Store = healthyStore(r, Pick(r, []time.Duration{p.H / 2, 100 * ms, 20 * ms}))
		// instance 0 starts first and normally leads; remove it at tv
		tv := r.Dur(p.H, 10*p.H) + 700*ms
		switch r.Intn(6) {
		case 0:
			p.Actions = append(p.Actions, Action{At: tv, Kind: AStopCtx, Inst: 0, DeleteKey: true, WaitForDemote: r.Bool(0.5)})
		case 1:
			p.Actions = append(p.Actions, Action{At: tv, Kind: ACrash, Inst: 0})
		case 2:
			p.Faults = append(p.Faults, Fault{Kind: FPartition, Inst: 0, From: tv})
		case 3:
			p.Actions = append(p.Actions, Action{At: tv, Kind: AOutDelete, Key: "g1"})
		case 4:
			p.Actions = append(p.Actions, Action{At: tv, Kind: AExpire, Key: "g1"})
		default:
			p.Actions = append(p.Actions, Action{At: tv, Kind: AStop, Inst: 0})
		}
		end := tv + p.TTL + 3*sec
		// watch delivery faults on the candidates: everything, or a random subset
		switch r.Intn(4) {
		case 0:
			p.Faults = append(p.Faults, Fault{Kind: FWatchDrop, Inst: -1, From: 0, To: end + 10*sec})
		case 1:
			p.Faults = append(p.Faults, Fault{Kind: FWatchDrop, Inst: -1, From: tv - p.H, To: end, Prob: 0.5})
		case 2:
			p.Faults = append(p.Faults, Fault{Kind: FWatchHold, Inst: 1 + r.Intn(n-1), From: tv - p.H, To: end})
		}
		// transient store failures on candidates before recovery
		if r.Bool(0.5) {
			c := 1 + r.Intn(n-1)
			from := r.Dur(0, tv+p.TTL)
			f := Fault{Inst: c, From: from, To: from + r.Dur(p.H, p.TTL)}
			switch r.Intn(5) {
			case 0:
				f.Kind, f.Err = FWatchFail, "timeout"
				f.From = 0 // the first Watch call of the candidate
			case 1:
				f.Kind, f.Op, f.Err = FError, "get", Pick(r, []string{"timeout", "noresponders"})
			case 2:
				f.Kind, f.Op = FHang, "create"
			case 3:
				f.Kind = FPartition
			default:
				f.Kind = FWatchClose
			}
			p.Faults = append(p.Faults, f)
			if f.To > end {
				end = f.To
			}
		}
		// later vacancies: whoever leads by then loses the record again (several terms per
		// candidate: a candidate that led before must be able to come back)
		t := end + r.Dur(1*sec, 4*sec)
		slowAttempts := r.Bool(0.25)
		nv := r.Intn(3)
		if slowAttempts {
			nv = 2 + r.Intn(2)
		}
		for k := nv; k > 0; k-- {
			p.Actions = append(p.Actions, Action{At: t, Kind: Pick(r, []string{AOutDelete, AExpire}), Key: "g1"})
			t += p.TTL/2 + r.Dur(2*sec, 5*sec)
		}
		if r.Bool(0.3) {
			// connection monitoring: short blips (a disconnect and its reconnect well inside the grace
			// period, or a lone reconnect) reach leaders and followers alike early in the plan; the
			// later vacancies then have to be found by the periodic check (notifications dropped)
			for i := range p.Insts {
				p.Insts[i].Monitor = true
				p.Insts[i].Grace = Pick(r, []time.Duration{0, 2*p.H + 5*sec})
				for k := 0; k < 1+r.Intn(2); k++ {
					td := r.Dur(p.H, end+sec)
					if r.Bool(0.7) {
						p.Actions = append(p.Actions, Action{At: td, Kind: ADisconnect, Inst: i})
					}
					p.Actions = append(p.Actions, Action{At: td + r.Dur(20*ms, 900*ms), Kind: AReconnect, Inst: i})
				}
			}
			p.Faults = append(p.Faults, Fault{Kind: FWatchDrop, Inst: -1, From: end + sec, To: t + 10*sec, Prob: 0.8})
		}
		end = t
		p.Until = end + 6*sec
		p.Tail = p.TTL + 2*sec
		p.Sched = SchedCfg{YieldProb: Pick(r, []float64{0, 0.2, 0.5}), StallMax: Pick(r, []time.Duration{0, 5 * ms, 50 * ms, p.H / 10})}
		if slowAttempts {
			// acquisition attempts that are slow to start (up to a second at the top of an attempt),
			// so that several rounds of one instance overlap: one wins while another is still waiting
			// to begin; then more vacancies
			p.Sched = SchedCfg{YieldProb: 0.8, StallMax: Pick(r, []time.Duration{300 * ms, 1 * sec}), StallSites: []string{"acquire.attempt"}}
		}
		return p
	}
}

func init() {
	// C20: many concurrent API callers, stops and restarts under load, notifications, faults.
	// Executed in free-run mode under the race detector.
	families["c20"] = func(r *Rng) *Plan {
		p := &Plan{Judge: []string{"C20"}}
		p.H = Pick(r, []time.Duration{50 * ms, 100 * ms})
		p.TTL = Pick(r, []time.Duration{3 * p.H, 5 * p.H})
		n := 2 + r.Intn(2)
		p.Insts = mkInsts(r, n, 1)
		for i := range p.Insts {
			c := &p.Insts[i]
			c.V = Pick(r, []time.Duration{0, p.H, 2 * p.H})
			c.Monitor = r.Bool(0.7)
			c.Grace = Pick(r, []time.Duration{0, 2 * p.H, 4 * p.H})
			c.CorrID = r.Bool(0.5)
			if r.Bool(0.5) {
				c.Prio = Pick(r, []int{1, 2, 3})
				c.Takeover = true
			}
			if r.Bool(0.3) {
				c.HasHealth = true
				c.HealthRest = "h"
				c.Health = "hhuhuuhhhuuuhh"
				c.MaxHealth = 2
			}
			p.Actions = append(p.Actions, Action{At: r.Dur(0, 20*ms), Kind: AStart, Inst: i})
		}
		p.Store = StoreCfg{Req: [2]Dur{0, 5 * ms}, Resp: [2]Dur{0, 5 * ms}, WatchDelay: [2]Dur{0, 0}}
		p.Until = r.Dur(1*sec, 3*sec)
		kinds := []string{AReadAPI, AReadAPI, AReadAPI, AValidate, AValidateOD, ARegister, ADisconnect, AReconnect, AClosed, AStop, AStopCtx, AStart, ARestart, AStatus, ACancelStart, AStart}
		m := 60 + r.Intn(120)
		for k := 0; k < m; k++ {
			a := Action{At: r.Dur(0, p.Until), Kind: Pick(r, kinds), Inst: r.Intn(n)}
			if a.Kind == AStopCtx {
				a.DeleteKey = r.Bool(0.5)
				a.WaitForDemote = r.Bool(0.5)
				a.Timeout = Pick(r, []time.Duration{0, 100 * ms, 1 * sec})
			}
			p.Actions = append(p.Actions, a)
			if r.Bool(0.3) { // bursts at the same instant
				b := a
				b.Kind = Pick(r, kinds)
				p.Actions = append(p.Actions, b)
			}
		}
		if r.Bool(0.5) {
			from := r.Dur(0, p.Until)
			p.Faults = append(p.Faults, Fault{Kind: Pick(r, []string{FPartition, FError}), Inst: r.Intn(n), From: from, To: from + r.Dur(p.H, p.TTL), Err: "timeout"})
		}
		if r.Bool(0.3) {
			p.Actions = append(p.Actions, Action{At: r.Dur(0, p.Until), Kind: AOutDelete, Key: "g1"})
		}
		if r.Bool(0.4) {
			// answers that arrive after the library has given up on them (its per-operation
			// time-outs are 1-2 s): the abandoned goroutines finish while the loops have moved on
			from := r.Dur(0, p.Until/2)
			p.Faults = append(p.Faults, Fault{Kind: FSlow, Inst: r.Intn(n), Op: Pick(r, []string{"update", "get", ""}), From: from, To: from + r.Dur(p.H, 5*p.H), Arg: r.Dur(1100*ms, 2500*ms)})
			p.Until += 3 * sec
		}
		if r.Bool(0.5) {
			// overlapping stop calls on one instance followed by a restart, several times (with slow
			// answers above, the stop calls really wait for the instance's goroutines)
			for k := 0; k < 2+r.Intn(3); k++ {
				i, t := r.Intn(n), r.Dur(0, p.Until)
				p.Actions = append(p.Actions,
					Action{At: t, Kind: Pick(r, []string{AStop, AStopCtx}), Inst: i, Timeout: 1 * sec},
					Action{At: t + r.Dur(0, 300*ms), Kind: Pick(r, []string{AStop, AStopCtx, AStopStart, AStopStart}), Inst: i, Timeout: 1 * sec},
					Action{At: t + r.Dur(0, 1500*ms), Kind: AStart, Inst: i},
					Action{At: t + r.Dur(0, 2500*ms), Kind: AStart, Inst: i})
			}
		}
		p.Sched = SchedCfg{Free: true, YieldProb: 1}
		return p
	}
}

func init() {
	// C08/C19 family: demotion causes generated singly and in pairs timed to coincide. The
	// validation interval is a multiple of H (its ticker is aligned with the heartbeat's), store
	// latencies are often constant (so that a failing refresh and a failing validation read of
	// the same tick return at the same virtual instant), and the adversary changes the record,
	// the connection or the health at an arbitrary time; stops land on top of it.
	families["c08"] = func(r *Rng) *Plan {
		p := &Plan{Judge: []string{"C08", "C19", "C18", "C05"}}
		baseTiming(r, p, hWide)
		n := 1 + r.Intn(2)
		p.Insts = mkInsts(r, n, 1)
		for i := range p.Insts {
			c := &p.Insts[i]
			c.V = Pick(r, []time.Duration{p.H, p.H, 2 * p.H})
			c.Monitor = r.Bool(0.4)
			c.Grace = Pick(r, []time.Duration{0, 2 * p.H, 3 * p.H})
			c.PromoteMode = Pick(r, []string{"block", "block", "return"})
			c.DemoteDur = Pick(r, []time.Duration{0, 0, 5 * ms})
			if r.Bool(0.3) {
				c.HasHealth, c.HealthRest, c.MaxHealth = true, "h", 1+r.Intn(3)
				c.Health = Pick(r, []string{"hhhhuuuhhhhuuuuhh", "hhuuhhhhuhuuuh", "hhhhhhuuuuuu"})
			}
			if n == 2 && r.Bool(0.5) {
				c.Prio, c.Takeover = 1+i*3, i == 1
			}
			p.Actions = append(p.Actions, Action{At: time.Duration(i) * r.Dur(0, 3*p.H), Kind: AStart, Inst: i})
		}
		lat := r.Dur(1*ms, p.H/4)
		if r.Bool(0.6) {
			p.Store = StoreCfg{Req: [2]Dur{lat / 2, lat / 2}, Resp: [2]Dur{lat / 2, lat / 2}, WatchDelay: [2]Dur{0, Pick(r, []time.Duration{0, lat, 20 * ms})}}
		} else {
			p.Store = healthyStore(r, p.H/2)
		}
		p.Until = r.Dur(3*p.TTL, 8*p.TTL) + 2*sec
		m := 1 + r.Intn(4)
		for k := 0; k < m; k++ {
			t := r.Dur(2*p.H, p.Until)
			if r.Bool(0.4) { // exactly on a tick boundary of instance 0 (started at 0, leader after ~lat)
				t = time.Duration(2+r.Intn(20))*p.H + lat + r.Dur(0, 2)
			}
			switch r.Intn(8) {
			case 0:
				p.Actions = append(p.Actions, Action{At: t, Kind: AOutPut, Key: "g1", Value: []byte(`{"id":"intruder","token":"00000000-0000-4000-8000-000000000001","priority":7}`)})
			case 1:
				p.Actions = append(p.Actions, Action{At: t, Kind: AOutDelete, Key: "g1"})
			case 2:
				p.Actions = append(p.Actions, Action{At: t, Kind: AExpire, Key: "g1"})
			case 3:
				p.Actions = append(p.Actions, Action{At: t, Kind: ADisconnect, Inst: r.Intn(n)})
			case 4:
				p.Actions = append(p.Actions, Action{At: t, Kind: AValidateOD, Inst: r.Intn(n)})
			case 5:
				p.Actions = append(p.Actions, Action{At: t, Kind: Pick(r, []string{AStop, AStopCtx}), Inst: r.Intn(n), DeleteKey: r.Bool(0.5), WaitForDemote: r.Bool(0.5)})
				p.Actions = append(p.Actions, Action{At: t + r.Dur(p.H, 3*p.TTL), Kind: AStart, Inst: p.Actions[len(p.Actions)-1].Inst})
			case 6:
				p.Faults = append(p.Faults, Fault{Kind: Pick(r, []string{FError, FHang, FPartition}), Inst: r.Intn(n), From: t, To: t + r.Dur(2*p.H, 2*p.TTL), Err: "timeout"})
			default:
				p.Actions = append(p.Actions, Action{At: t, Kind: AReconnect, Inst: r.Intn(n)})
			}
		}
		// grace expiry coinciding with a second cause of demotion: the disconnect notification
		// arrives at t, the grace timer fires at exactly t+grace, and at that very instant a stop,
		// a manual validation of a record that a foreign writer has just replaced, or the failure
		// of a refresh lands as well
		if r.Bool(0.35) {
			g := Pick(r, []time.Duration{2 * p.H, 3 * p.H})
			p.Insts[0].Monitor, p.Insts[0].Grace = true, g
			t := r.Dur(3*p.H, p.Until-g-p.H)
			p.Actions = append(p.Actions, Action{At: t, Kind: ADisconnect, Inst: 0})
			switch r.Intn(4) {
			case 0:
				p.Actions = append(p.Actions, Action{At: t + g, Kind: Pick(r, []string{AStop, AStopCtx}), Inst: 0, DeleteKey: r.Bool(0.5)})
			case 1:
				p.Actions = append(p.Actions, Action{At: t + g - p.Store.Req[1] - p.Store.Resp[1] - ms, Kind: AOutPut, Key: "g1", Value: []byte(`{"id":"intruder","token":"00000000-0000-4000-8000-000000000001","priority":7}`)})
				p.Actions = append(p.Actions, Action{At: t + g - p.Store.Req[1] - p.Store.Resp[1], Kind: AValidateOD, Inst: 0})
			case 2:
				p.Actions = append(p.Actions, Action{At: t + g - r.Dur(0, p.H), Kind: AOutDelete, Key: "g1"})
			default:
				p.Faults = append(p.Faults, Fault{Kind: FError, Inst: 0, Op: "update", From: t, To: t + g + 3*p.H, Err: "timeout"})
			}
		}
		statusCalls(r, p)
		lateOnDemote(r, p, 0.15)
		p.Tail = 0
		p.Sched = SchedCfg{YieldProb: Pick(r, []float64{0.1, 0.3, 0.6}), StallMax: Pick(r, []time.Duration{0, 0, p.H / 20})}
		if r.Bool(0.15) {
			// preempted right after releasing a lock (up to H/4), while a foreign writer replaces
			// the record the moment an instance's own create has been applied: the promotion and
			// the demotion by the watcher (still running from the instance's time as a follower)
			// overlap
			p.Sched = SchedCfg{YieldProb: 0.7, StallMax: p.H / 4, StallSites: []string{"*:unlocked"}}
			for i := 0; i < n; i++ {
				p.Actions = append(p.Actions, Action{Kind: AOutPut, Key: "g1", Inst: i, OpKind: "create", OpN: 2 + r.Intn(2), Phase: "apply", Delay: 1,
					Value: []byte(`{"id":"intruder","token":"00000000-0000-4000-8000-000000000001","priority":7}`)})
			}
			p.Actions = append(p.Actions, Action{At: r.Dur(2*p.H, 6*p.H), Kind: AOutDelete, Key: "g1"})
		} else if r.Bool(0.2) {
			// a slow demoting goroutine: up to 300 ms between the end of the claim and the
			// OnDemote call, while the record is gone (outsider delete) and the instance
			// re-acquires at once: the next term's OnPromote must still come after this OnDemote
			p.Sched = SchedCfg{YieldProb: 0.7, StallMax: 300 * ms, StallSites: []string{"runOnDemote", "becomeFollower:unlocked"}}
			t := r.Dur(2*p.H, p.Until/2)
			for k := 0; k < 1+r.Intn(3); k++ {
				p.Actions = append(p.Actions, Action{At: t, Kind: AOutDelete, Key: "g1"})
				t += r.Dur(2*p.H, 4*p.H)
			}
		}
		return p
	}
}

func init() {
	// "pause": the mixed family with long goroutine pauses (a stalled process, GC, VM steal: the
	// classic fencing scenario) at yield sites. Only oracles without timing bounds judge it.
	families["pause"] = func(r *Rng) *Plan {
		p := families["mixed"](r)
		p.Judge = []string{"C01", "C05", "C10"}
		p.Sched = SchedCfg{YieldProb: Pick(r, []float64{0.02, 0.05, 0.15}), StallMax: Pick(r, []time.Duration{p.H, p.TTL, 2 * p.TTL})}
		p.Until += 2 * p.TTL
		return p
	}
}

func init() {
	// C09 stop-point enumeration: the stop call is placed by (operation number, phase) of the
	// stopping instance's own store operations: immediately before (invoke), between issue and
	// application (invoke + tiny delay), between application and response (apply), immediately
	// after (return) - for each of its first 16 operations and for each stop variant. The seed
	// enumerates (op#, phase, variant); the rest of the schedule is random.
	families["c09stop"] = func(r *Rng) *Plan {
		p := &Plan{Judge: []string{"C09", "C18", "C08"}}
		baseTiming(r, p, hWide)
		n := 1 + r.Intn(3)
		p.Insts = mkInsts(r, n, 1)
		for i := range p.Insts {
			c := &p.Insts[i]
			c.V = Pick(r, []time.Duration{0, p.H, 2 * p.H})
			c.DemoteDur = Pick(r, []time.Duration{0, 0, 10 * ms, 6 * sec})
			c.PromoteMode = Pick(r, []string{"block", "return"})
			if r.Bool(0.3) {
				c.Prio, c.Takeover = 1+r.Intn(3), true
			}
			p.Actions = append(p.Actions, Action{At: time.Duration(i) * r.Dur(0, 2*p.H), Kind: AStart, Inst: i})
		}
		if n > 1 && r.Bool(0.5) {
			// the stopping instance joins late: it meets a leader (and, with takeover enabled and
			// a higher priority, stops in the middle of its takeover read or write)
			p.Actions[0].At = r.Dur(p.H, 5*p.H)
			if r.Bool(0.6) {
				p.Insts[0].Prio, p.Insts[0].Takeover = 5, true
			}
		}
		p.Store = healthyStore(r, Pick(r, []time.Duration{p.H / 2, p.H, 2 * sec}))
		// a client configured with a long request time-out and a store that answers some
		// operations only after Stop's 5 s cap: the operation in flight may finish, nothing new
		// may follow it
		lateTaker := n > 1 && p.Insts[0].Takeover && p.Insts[0].Prio == 5 && p.Actions[0].At > 0
		if r.Bool(0.25) || lateTaker && r.Bool(0.5) {
			p.Store.ClientTimeout = 15 * sec
			from := r.Dur(0, 3*p.H)
			op := Pick(r, []string{"get", "create", "update", ""})
			if lateTaker && r.Bool(0.6) {
				op = "get" // the takeover's read
			}
			p.Faults = append(p.Faults, Fault{Kind: FSlow, Inst: 0, Op: op, From: from, To: from + r.Dur(p.H, 10*sec), Arg: r.Dur(5*sec, 9*sec), Prob: 0.7})
		}
		return p
	}
}

// enumerateStopPoint completes a c09stop plan from the seed: called by GenPlan.
func enumerateStopPoint(p *Plan, seed uint64) {
	phases := []string{"invoke", "invoke", "apply", "return"}
	delays := []time.Duration{0, 1, 0, 0} // "invoke"+1ns = between issue and application
	variants := []Action{
		{Kind: AStop},
		{Kind: AStopCtx},
		{Kind: AStopCtx, DeleteKey: true},
		{Kind: AStopCtx, DeleteKey: true, WaitForDemote: true},
		{Kind: AStopCtx, WaitForDemote: true, Timeout: 1 * sec},
		{Kind: AStopCtx, DeleteKey: true, Timeout: 10 * sec, CtxTimeout: 2 * sec},
		{Kind: AStopCtx, CtxCancelAt: 300 * ms},
		{Kind: AStop},
		{Kind: AStop},
		// the caller's context is cancelled while the call waits for a slow OnDemote / before it deletes
		{Kind: AStopCtx, WaitForDemote: true, CtxCancelAt: 300 * ms},
		{Kind: AStopCtx, DeleteKey: true, CtxCancelAt: 1 * ms},
	}
	k := seed
	opn := int(k%16) + 1
	k /= 16
	ph := int(k % 4)
	k /= 4
	v := variants[k%uint64(len(variants))]
	v.Inst = 0
	v.OpN, v.Phase, v.Delay = opn, phases[ph], delays[ph]
	r := NewRng(seed, "c09stop-extra")
	opKind := ""
	if r.Bool(0.25) {
		// the stop point is one of the instance's own acquisitions (its 1st..3rd create)
		opKind, opn = Pick(r, []string{"create", "create", "create", "get", "update"}), 1+opn%3
		if r.Bool(0.5) {
			opn = 1
		}
		if r.Bool(0.6) { // while the create is in flight
			ph = 1 + r.Intn(2)
			v.Phase, v.Delay = phases[ph], delays[ph]
		}
		v.OpKind, v.OpN = opKind, opn
	}
	p.Actions = append(p.Actions, v)
	if r.Bool(0.4) { // repeated stop, or stop then start
		p.Actions = append(p.Actions, Action{OpN: opn, OpKind: opKind, Phase: phases[ph], Delay: delays[ph] + r.Dur(0, 8*sec), Inst: 0, Kind: Pick(r, []string{AStop, AStopCtx, AStart})})
	} else if r.Bool(0.4) { // two stop calls at the very same instant (two shutdown paths of one program)
		w := Pick(r, variants)
		if r.Bool(0.5) {
			w = v // the same variant twice
		}
		w.Inst, w.OpN, w.OpKind, w.Phase, w.Delay = 0, opn, opKind, phases[ph], delays[ph]
		p.Actions = append(p.Actions, w)
	}
	statusCalls(r, p)
	p.Note = fmt.Sprintf("stop point: op %d phase %s(+%d) variant %d", opn, phases[ph], delays[ph], k%uint64(len(variants)))
	p.Until = 20*p.H + 3*p.TTL + 8*sec
	if p.Family != "c02stop" {
		lateOnDemote(r, p, 0.15)
	}
	p.Tail = 0
	p.Sched = SchedCfg{YieldProb: Pick(r, []float64{0, 0.2, 0.5}), StallMax: 0}
	if r.Bool(0.3) || opKind != "" && r.Bool(0.5) {
		// a slow stop call: the stopping goroutine stalls (up to H/2, long enough for a response in
		// flight to arrive) before a lock acquisition or right after a release inside the stop
		// functions; everything else runs at full speed
		p.Sched = SchedCfg{YieldProb: Pick(r, []float64{0.5, 0.9}), StallMax: p.H / 2,
			StallSites: []string{"Stop", "Stop:unlocked", "StopWithContext", "StopWithContext:unlocked"}}
	}
}

func init() {
	// C02/C07 with enumerated stop points: the fault-free family (every operation below H/2, no
	// takeover, no outsider) with the stop of instance 0 placed by (operation number, phase).
	families["c02stop"] = func(r *Rng) *Plan {
		p := families["faultfree"](r)
		// keep the starts, drop the random lifecycle of instance 0 (its stop is enumerated)
		var acts []Action
		seen := map[int]bool{}
		for _, a := range p.Actions {
			if a.Inst == 0 {
				if a.Kind == AStart && !seen[0] {
					seen[0] = true
					a.At = 0
					acts = append(acts, a)
				}
				continue
			}
			acts = append(acts, a)
		}
		p.Actions = acts
		p.Judge = []string{"C02", "C07", "C08", "C18", "C19", "C09"}
		return p
	}
}

func init() {
	// C07 "rounds": fault-free, but dense in vacancies and in overlapping acquisition rounds of
	// one instance: instance 0 cycles start -> lead -> StopWithContext{DeleteKey} every few
	// hundred ms, the others see every watch event twice (late/duplicated notifications are in
	// C07's statement) on top of their periodic checks, so several rounds per instance are alive
	// while records come and go; small stalls at yield sites.
	families["c07rounds"] = func(r *Rng) *Plan {
		p := &Plan{Judge: []string{"C07", "C02", "C08", "C19", "C18", "C05", "C17"}}
		p.H = Pick(r, []time.Duration{200 * ms, 500 * ms, 1 * sec})
		p.TTL = Pick(r, []time.Duration{3 * p.H, 5 * p.H})
		n := 2 + r.Intn(2)
		p.Insts = mkInsts(r, n, 1)
		for i := range p.Insts {
			p.Insts[i].V = Pick(r, []time.Duration{0, p.H, 2 * p.H})
		}
		lat := Pick(r, []time.Duration{p.H / 2, p.H / 4, 40 * ms})
		p.Store = healthyStore(r, lat)
		p.Store.WatchDelay = [2]Dur{0, Pick(r, []time.Duration{1 * ms, 30 * ms, 300 * ms})}
		for i := 1; i < n; i++ {
			p.Actions = append(p.Actions, Action{At: r.Dur(0, 50*ms), Kind: AStart, Inst: i})
		}
		t := r.Dur(0, 100*ms)
		cycles := 4 + r.Intn(10)
		for k := 0; k < cycles; k++ {
			p.Actions = append(p.Actions, Action{At: t, Kind: AStart, Inst: 0})
			t += r.Dur(lat, lat+600*ms)
			p.Actions = append(p.Actions, Action{At: t, Kind: AStopCtx, Inst: 0, DeleteKey: true, WaitForDemote: r.Bool(0.3)})
			t += r.Dur(lat, lat+500*ms)
		}
		p.Faults = append(p.Faults, Fault{Kind: FWatchDup, Inst: -1, From: 0, To: t + 10*sec})
		p.Until = t + 2*p.TTL + 2*sec
		p.Tail = 0
		p.Sched = SchedCfg{YieldProb: Pick(r, []float64{0.1, 0.3, 0.6}), StallMax: Pick(r, []time.Duration{0, p.H / 50, p.H / 50})}
		if r.Bool(0.3) {
			// a round that has lost is slow to step back (up to 300 ms before it takes the election
			// mutex) while another round of the same instance wins
			p.Sched = SchedCfg{YieldProb: 0.9, StallMax: 300 * ms, StallSites: []string{"becomeFollower", "becomeFollowerUnlessLeader", "acquire.retrycheck"}}
		}
		return p
	}
}

func init() {
	// C07 "stale": fault-free; watch notifications are late by more than the 500 ms periodic check
	// (delivery stays FIFO per subscription), so a follower learns of a vacancy from its periodic
	// check and wins the record while notifications of the previous leader's refreshes are still
	// in flight; goroutines stall up to H/8 at yield sites, so such a notification can be half
	// processed when the promotion happens. Leaders hand over by StopWithContext{DeleteKey} or
	// Stop shortly after a refresh, several times per plan.
	families["c07stale"] = func(r *Rng) *Plan {
		p := &Plan{Judge: []string{"C07", "C08", "C19", "C02", "C01"}}
		p.H = Pick(r, []time.Duration{200 * ms, 200 * ms, 500 * ms, 1 * sec})
		p.TTL = Pick(r, []time.Duration{3 * p.H, 5 * p.H})
		n := 2 + r.Intn(2)
		p.Insts = mkInsts(r, n, 1)
		for i := range p.Insts {
			p.Insts[i].V = Pick(r, []time.Duration{0, 0, 2 * p.H})
		}
		lat := Pick(r, []time.Duration{p.H / 10, p.H / 4, 5 * ms})
		p.Store = healthyStore(r, lat)
		wd := Pick(r, []time.Duration{600 * ms, 1 * sec, 2 * sec})
		p.Store.WatchDelay = [2]Dur{wd / 2, wd}
		for i := 0; i < n; i++ {
			p.Actions = append(p.Actions, Action{At: time.Duration(i) * r.Dur(10*ms, 60*ms), Kind: AStart, Inst: i})
		}
		// every few heartbeats whoever may lead is stopped (all instances get the stop; only the
		// leader's has an effect on the record) and restarted after the vacancy was filled
		t := r.Dur(3*p.H, 6*p.H)
		cycles := 2 + r.Intn(5)
		for k := 0; k < cycles; k++ {
			i := k % n
			kind := Pick(r, []string{AStopCtx, AStopCtx, AStop})
			p.Actions = append(p.Actions, Action{At: t, Kind: kind, Inst: i, DeleteKey: kind == AStopCtx})
			p.Actions = append(p.Actions, Action{At: t + r.Dur(1*sec, 2*sec), Kind: AStart, Inst: i})
			t += r.Dur(2*sec+3*p.H, 3*sec+6*p.H)
		}
		p.Until = t + 2*p.TTL + 2*sec
		p.Tail = 0
		p.Sched = SchedCfg{YieldProb: Pick(r, []float64{0.3, 0.6}), StallMax: Pick(r, []time.Duration{p.H / 50, p.H / 8, p.H / 8})}
		return p
	}
}

func init() {
	// C05 "lost acknowledgement": one write of an acquisition (the Create, or the takeover's
	// Update) is applied but its acknowledgement never arrives; the writer learns of the failure
	// only at the client time-out (5 s), by which time its record (TTL of a few seconds, or an
	// outsider's delete) has been succeeded by another instance's. Whatever the writer publishes
	// next must carry a fresh token. Priorities and takeover flags vary, so that the next write
	// is a Create or a takeover of the successor's record.
	families["c05ack"] = func(r *Rng) *Plan {
		p := &Plan{Judge: []string{"C05", "C01", "C18"}}
		p.H = Pick(r, []time.Duration{200 * ms, 500 * ms, 1 * sec})
		p.TTL = Pick(r, []time.Duration{3 * p.H, 3 * p.H, 4 * p.H})
		n := 2 + r.Intn(2)
		p.Insts = mkInsts(r, n, 1)
		for i := range p.Insts {
			c := &p.Insts[i]
			c.Prio = Pick(r, []int{1, 2, 3, 5})
			c.Takeover = r.Bool(0.7)
			c.V = Pick(r, []time.Duration{0, 2 * p.H})
			p.Actions = append(p.Actions, Action{At: time.Duration(i) * r.Dur(0, 2*p.H), Kind: AStart, Inst: i})
		}
		p.Insts[0].Prio, p.Insts[0].Takeover = 5, true
		p.Store = healthyStore(r, Pick(r, []time.Duration{p.H / 2, p.H / 10}))
		// the lost acknowledgements: the n-th Create / Update of one or two instances
		for k := 0; k < 1+r.Intn(2); k++ {
			op := Pick(r, []string{"create", "create", "update"})
			nth := 1 + r.Intn(2)
			if op == "update" {
				nth = 1 + r.Intn(6)
			}
			p.Faults = append(p.Faults, Fault{Kind: FDropResp, Inst: Pick(r, []int{0, 0, r.Intn(n)}), Op: op, OpN: nth})
		}
		if r.Bool(0.4) {
			p.Actions = append(p.Actions, Action{At: r.Dur(p.H, 6*sec), Kind: AOutDelete, Key: "g1"})
		}
		if r.Bool(0.3) { // a restart of the writer while its write is still unanswered
			t := r.Dur(p.H, 5*sec)
			p.Actions = append(p.Actions, Action{At: t, Kind: AStopCtx, Inst: 0, Timeout: 1 * sec})
			p.Actions = append(p.Actions, Action{At: t + r.Dur(1*sec, 3*sec), Kind: AStart, Inst: 0})
		}
		p.Until = 7*sec + 3*p.TTL
		p.Tail = 0
		p.Sched = SchedCfg{YieldProb: Pick(r, []float64{0, 0.2}), StallMax: Pick(r, []time.Duration{0, p.H / 50})}
		if r.Bool(0.3) {
			// several acquisition rounds of one instance alive at once (every notification is
			// delivered twice), attempts slow to start (up to a second), and the record removed
			// again and again: a round that starts late may find the instance already leading
			// and the record gone
			p.Faults = []Fault{{Kind: FWatchDup, Inst: -1, From: 0, To: p.Until}}
			p.Sched = SchedCfg{YieldProb: 0.8, StallMax: Pick(r, []time.Duration{300 * ms, 1 * sec}), StallSites: []string{"acquire.attempt"}}
			t := r.Dur(p.H, 2*sec)
			for t < p.Until-p.TTL {
				p.Actions = append(p.Actions, Action{At: t, Kind: AOutDelete, Key: "g1"})
				t += r.Dur(200*ms, 1500*ms)
			}
		}
		return p
	}
}

func init() {
	// The context given to Start is cancelled instead of calling Stop ("If the context is
	// cancelled, the election will stop gracefully"): fault-free store, one to three instances;
	// afterwards the record is removed or left to expire, the application validates its token,
	// and the instance may be started again with a new context.
	families["ctxcancel"] = func(r *Rng) *Plan {
		p := &Plan{Judge: []string{"C02", "C03", "C04", "C08", "C05", "C19", "C06", "C01"}}
		baseTiming(r, p, hWide)
		n := 1 + r.Intn(3)
		p.Insts = mkInsts(r, n, 1)
		for i := range p.Insts {
			p.Insts[i].V = Pick(r, []time.Duration{0, p.H, 2 * p.H})
			p.Insts[i].DemoteDur = Pick(r, []time.Duration{0, 0, 10 * ms})
			p.Actions = append(p.Actions, Action{At: time.Duration(i) * r.Dur(0, 2*p.H), Kind: AStart, Inst: i})
		}
		p.Store = healthyStore(r, Pick(r, []time.Duration{p.H / 2, p.H / 10}))
		t := r.Dur(2*p.H, 8*p.H)
		who := 0
		if r.Bool(0.3) {
			who = r.Intn(n)
		}
		p.Actions = append(p.Actions, Action{At: t, Kind: ACancelStart, Inst: who})
		ci := len(p.Actions) - 1
		lateStop := time.Duration(0)
		if r.Bool(0.3) {
			// ... or the cancellation lands while one of the instance's own acquisitions is in
			// flight (its Create has been sent, perhaps applied, not yet answered)
			a := &p.Actions[len(p.Actions)-1]
			a.OpKind, a.OpN, a.Phase, a.Delay = "create", 1+r.Intn(2), Pick(r, []string{"invoke", "apply"}), Pick(r, []time.Duration{0, 1})
			if r.Bool(0.5) { // and much later the application shuts the object down, deleting "its" key
				// (sometimes later than any bound within which a replaced leader may still be unaware)
				lateStop = t + p.TTL + r.Dur(2*sec, 6*sec) + Pick(r, []time.Duration{0, p.H + 8*sec})
				p.Actions = append(p.Actions, Action{At: lateStop, Kind: AStopCtx, Inst: who, DeleteKey: true})
			}
		}
		if r.Bool(0.3) { // a redundant Start on the running election beforehand (refused)
			p.Actions = append(p.Actions, Action{At: r.Dur(p.H, t), Kind: AStart, Inst: who})
		}
		if r.Bool(0.5) {
			// (C02 speaks of records that only the elections touch)
			p.Judge = []string{"C03", "C04", "C08", "C05", "C19", "C06"}
			p.NoJudge = []string{"C02", "C01"}
			p.Actions = append(p.Actions, Action{At: t + r.Dur(0, 2*p.H), Kind: Pick(r, []string{AOutDelete, AExpire}), Key: "g1"})
		}
		for k := 0; k < r.Intn(3); k++ {
			p.Actions = append(p.Actions, Action{At: t + r.Dur(0, p.TTL+2*p.H), Kind: Pick(r, []string{AValidateOD, AValidate}), Inst: who})
		}
		if r.Bool(0.4) {
			p.Actions = append(p.Actions, Action{At: t + r.Dur(p.H, 2*p.TTL), Kind: AStart, Inst: who})
		} else if r.Bool(0.4) {
			// started again at once, while a slow OnDemote of the cancelled run is still running;
			// the old record is removed so that the new run can lead before that callback returns
			p.Insts[who].DemoteDur = Pick(r, []time.Duration{2 * sec, 4 * sec})
			p.Insts[who].PromoteMode = "block"
			p.NoJudge = []string{"C02"}
			p.Actions = append(p.Actions, Action{At: t + r.Dur(ms, 100*ms), Kind: AStart, Inst: who})
			p.Actions = append(p.Actions, Action{At: t + r.Dur(ms, 200*ms), Kind: AOutDelete, Key: "g1"})
		} else if r.Bool(0.5) {
			// started again at the very instant of the cancellation (cancel(); Start(newCtx) back to
			// back): the library's reaction to the cancellation and the new Start race
			p.Actions[ci].OpKind, p.Actions[ci].OpN, p.Actions[ci].Phase, p.Actions[ci].Delay = "", 0, "", 0
			p.Actions = append(p.Actions, Action{At: t, Kind: AStart, Inst: who})
			p.Sched = SchedCfg{YieldProb: 0.7}
			if r.Bool(0.5) {
				// ... and the goroutine that reacts to the cancellation is slow to get going (up to
				// 2 s before it takes the election mutex), while the old record is removed so that
				// the new run leads before it does
				p.Sched = SchedCfg{YieldProb: 0.8, StallMax: 2 * sec, StallSites: []string{"Start.func"}, StallUnknown: true}
				// (that goroutine belongs to no instance the harness knows of, so its stalls are not
				// accounted to one: only the oracles without timing bounds judge these plans)
				p.Judge = []string{"C08", "C19", "C05"}
				p.NoJudge = []string{"C01", "C02", "C03", "C04", "C06"}
				p.Actions = append(p.Actions, Action{At: t + r.Dur(ms, 100*ms), Kind: AOutDelete, Key: "g1"})
			}
		}
		statusCalls(r, p)
		p.Until = t + 3*p.TTL + 3*sec
		if lateStop > 0 && p.Until < lateStop+2*sec {
			p.Until = lateStop + 2*sec
		}
		p.Tail = 0
		if p.Sched.YieldProb == 0 {
			p.Sched = SchedCfg{YieldProb: Pick(r, []float64{0, 0.2, 0.5}), StallMax: Pick(r, []time.Duration{0, 0, p.H / 50})}
		}
		if !p.judges("C07") {
			p.NoJudge = append(p.NoJudge, "C07") // only the outsider-free restart variant is C07's business
		}
		return p
	}
}

func init() {
	// One instance, no outsider, no stop: it leads, the application cancels the context it gave
	// to Start and calls Start again at once; the goroutine that reacts to the cancellation is slow
	// (it gets going only after the old record has expired and the new run leads again). The new
	// run's leader must be left alone.
	families["c07restart"] = func(r *Rng) *Plan {
		p := &Plan{Judge: []string{"C07", "C08", "C19"}}
		p.H = Pick(r, []time.Duration{100 * ms, 200 * ms, 500 * ms})
		p.TTL = Pick(r, []time.Duration{3 * p.H, 4 * p.H})
		p.Insts = []InstCfg{{ID: "n1", Group: "g1", PromoteMode: Pick(r, []string{"block", "return"}), V: Pick(r, []time.Duration{0, p.H})}}
		p.Store = healthyStore(r, p.H/2)
		t := r.Dur(2*p.H, 6*p.H)
		p.Actions = []Action{{At: 0, Kind: AStart, Inst: 0}, {At: t, Kind: ACancelStart, Inst: 0}, {At: t + Pick(r, []time.Duration{0, 0, ms, 50 * ms}), Kind: AStart, Inst: 0}}
		p.Until = t + 3*p.TTL + 6*sec
		p.Tail = 0
		p.Sched = SchedCfg{YieldProb: 0.8, StallMax: p.TTL + 3*sec, StallSites: []string{"Start.func", "becomeFollower"}, StallUnknown: true}
		if r.Bool(0.4) {
			// a heartbeat iteration of the run that is about to be cancelled is held up (it got as far
			// as its tick within the last half interval before the cancellation) until the new run
			// leads: whatever it does then, it does to the new run's term
			p.Sched = SchedCfg{YieldProb: 0.9, StallMax: p.TTL + 3*sec, StallSites: []string{"heartbeat.tick"}, StallFrom: t - p.H/2, StallUntil: t}
		}
		return p
	}
}

func init() {
	// The context given to Start is cancelled while one of the instance's own Create calls is on
	// its way to a slow store, and Start is called again with a new context before that call is
	// answered (a restart of the same object without Stop, so nothing is drained). The Create of
	// the old run then succeeds - the new run leads on it - or fails because another owner was
	// faster; that owner's record expires later and the new run has to fill the vacancy.
	families["ctxrestart"] = func(r *Rng) *Plan {
		p := &Plan{Judge: []string{"C19", "C06", "C08", "C05", "C03", "C04", "C02"}, NoJudge: []string{"C01", "C02", "C07"}}
		baseTiming(r, p, hWide)
		p.Insts = mkInsts(r, 1, 1)
		p.Insts[0].V = Pick(r, []time.Duration{0, p.H})
		p.Store = healthyStore(r, p.H/10)
		slow := r.Dur(300*ms, 1500*ms)
		intruder := []byte(`{"id":"intruder","token":"00000000-0000-4000-8000-000000000001","priority":0}`)
		k := 1
		t0 := time.Duration(0)
		foreign := r.Bool(0.6)
		if !foreign {
			// only the election touches the record, the store answers well below H/2 except for the one
			// slow Create (which C02's precondition check excludes if it is too slow): C02 applies
			p.NoJudge = []string{"C01", "C07"}
		}
		if foreign {
			// another owner's record is there first and expires TTL later (or is removed earlier):
			// the slow Create is the one the instance sends when it notices that vacancy
			p.Actions = append(p.Actions, Action{At: 0, Kind: AOutPut, Key: "g1", Value: intruder})
			t0 = 10 * ms
			k = 2
			if r.Bool(0.5) {
				p.Actions = append(p.Actions, Action{At: r.Dur(p.H, p.TTL), Kind: Pick(r, []string{AOutDelete, AExpire}), Key: "g1"})
			}
		}
		p.Actions = append(p.Actions, Action{At: t0, Kind: AStart, Inst: 0})
		p.Faults = append(p.Faults, Fault{Kind: FSlow, Inst: 0, Op: "create", OpN: k, Arg: slow})
		cd := Pick(r, []time.Duration{0, 1, ms, slow / 4})
		p.Actions = append(p.Actions, Action{Kind: ACancelStart, Inst: 0, OpKind: "create", OpN: k, Phase: "invoke", Delay: cd})
		p.Actions = append(p.Actions, Action{Kind: AStart, Inst: 0, OpKind: "create", OpN: k, Phase: "invoke", Delay: cd + r.Dur(0, slow/2)})
		if foreign && r.Bool(0.6) {
			// the other owner is back before the slow Create is applied
			p.Actions = append(p.Actions, Action{Kind: AOutPut, Key: "g1", Value: intruder, Inst: 0, OpKind: "create", OpN: k, Phase: "invoke", Delay: r.Dur(ms, slow-ms)})
		}
		for i := 0; i < r.Intn(3); i++ {
			p.Actions = append(p.Actions, Action{At: r.Dur(p.TTL, 3*p.TTL+slow), Kind: Pick(r, []string{AValidateOD, AValidate}), Inst: 0})
		}
		p.Until = 3*p.TTL + 2*slow + 8*sec
		p.Tail = 0
		statusCalls(r, p)
		p.Sched = SchedCfg{YieldProb: Pick(r, []float64{0, 0.2, 0.5}), StallMax: Pick(r, []time.Duration{0, 0, p.H / 50})}
		return p
	}
}

func init() {
	// Start is called while a StopWithContext call of the same object is in progress (another
	// goroutine of the application restarts the election). Start either refuses (stop in progress)
	// or begins a new run - and a run it has begun must work: it fills the next vacancy. The stop
	// call is slow between its critical sections (stalls at its lock sites), so that some Start
	// lands after the old run has drained and before the stop call's last bookkeeping.
	families["stoprestart"] = func(r *Rng) *Plan {
		// (not C02/C01: a stop call with DeleteKey that is overtaken by the new run deletes the new
		// run's record - the unconditional delete of the recorded C01 finding)
		p := &Plan{Judge: []string{"C06", "C08", "C19", "C05", "C18"}, StartDuringStop: true,
			NoJudge: []string{"C01", "C02", "C03", "C04", "C07", "C09", "C10", "C11", "C12", "C13"}}
		baseTiming(r, p, hWide)
		p.Insts = mkInsts(r, 1, 1)
		p.Store = healthyStore(r, p.H/10)
		t0 := time.Duration(0)
		if r.Bool(0.5) {
			// another owner's record first (expires TTL later): the instance is a follower when stopped
			p.Actions = append(p.Actions, Action{At: 0, Kind: AOutPut, Key: "g1", Value: []byte(`{"id":"intruder","token":"00000000-0000-4000-8000-000000000001","priority":0}`)})
			t0 = 10 * ms
		}
		p.Actions = append(p.Actions, Action{At: t0, Kind: AStart, Inst: 0})
		t := t0 + r.Dur(p.H, p.TTL-p.H/2)
		if r.Bool(0.75) {
			p.Actions = append(p.Actions, Action{At: t, Kind: AStopCtx, Inst: 0, WaitForDemote: r.Bool(0.3), DeleteKey: r.Bool(0.3)})
		} else {
			p.Actions = append(p.Actions, Action{At: t, Kind: AStop, Inst: 0})
		}
		for j := 0; j < 3+r.Intn(5); j++ {
			p.Actions = append(p.Actions, Action{At: t + r.Dur(0, 400*ms), Kind: AStart, Inst: 0})
		}
		p.Until = t + 3*p.TTL + 6*sec
		p.Tail = 0
		statusCalls(r, p)
		p.Sched = SchedCfg{YieldProb: 0.6, StallMax: Pick(r, []time.Duration{50 * ms, 200 * ms, 400 * ms}), StallSites: []string{"StopWithContext", "Stop"}}
		if t0 == 0 && r.Bool(0.25) {
			// a callback that is slow to take its turn in the callback order (held up for up to 2 s
			// before it looks at the order), a StopWithContext that gives up waiting after a fraction
			// of that - it fails, and hands back the turn it had taken for its OnDemote - and a Start
			// once the old run has drained: the next term's callbacks must come
			p.Actions = p.Actions[:1] // the first Start only
			to := Pick(r, []time.Duration{100 * ms, 300 * ms})
			p.Actions = append(p.Actions, Action{Kind: AStopCtx, Inst: 0, OpKind: "create", OpN: 1, Phase: "return", Delay: r.Dur(0, 50*ms), Timeout: to, WaitForDemote: r.Bool(0.5), DeleteKey: r.Bool(0.3)})
			for j := 0; j < 2+r.Intn(3); j++ {
				p.Actions = append(p.Actions, Action{At: r.Dur(2200*ms, 5*sec), Kind: AStart, Inst: 0})
			}
			p.Until = 5*sec + 3*p.TTL + 6*sec
			statusCalls(r, p)
			// (the callback's goroutine is new - the harness cannot attribute it to the instance -, so its
			// stall is accounted to nobody: only the oracles without time bounds judge these plans)
			p.Sched = SchedCfg{YieldProb: 0.9, StallMax: 2 * sec, StallSites: []string{"callbackTurn"}, StallUntil: 2 * sec, StallUnknown: true}
			p.Judge = []string{"C08", "C19", "C05"}
			p.NoJudge = append(p.NoJudge, "C06", "C18")
		}
		return p
	}
}

func init() {
	// "sameid": the replacement that shares its predecessor's name. Instance 0 leads; at its k-th
	// refresh something goes wrong for a moment (a transient error, an answer later than the
	// per-refresh time-out, a lost acknowledgement, a short partition, a goroutine pause); a second
	// election object with the SAME InstanceID - usually with a higher priority and takeover
	// enabled, sometimes waiting for the record to lapse - is started around that moment and takes
	// the record over; the first object comes back. Nothing but the fencing token and the writer's
	// own bookkeeping tells the two apart: a record "with my id" is not "my record". Judged by the
	// oracles that identify writers by election object and token (C01, C05, C10 safety).
	families["sameid"] = func(r *Rng) *Plan {
		p := &Plan{Judge: []string{"C01", "C05", "C10", "C13"}}
		p.NoJudge = []string{"C02", "C03", "C04", "C06", "C07", "C08", "C09", "C11", "C12", "C17", "C18", "C19"}
		baseTiming(r, p, []time.Duration{100 * ms, 200 * ms, 500 * ms, 1 * sec, 2 * sec, 3 * sec})
		T := hbTimeout(p.H)
		p.Insts = mkInsts(r, 2+r.Intn(2), 1)
		p.Insts[1].ID = p.Insts[0].ID
		p.Insts[0].Prio = Pick(r, []int{0, 1, 2})
		p.Insts[0].Takeover = p.Insts[0].Prio > 0 && r.Bool(0.4)
		if r.Bool(0.8) {
			p.Insts[1].Prio, p.Insts[1].Takeover = p.Insts[0].Prio+1+r.Intn(3), true
		}
		for i := range p.Insts {
			p.Insts[i].V = Pick(r, []time.Duration{0, 0, p.H, 2 * p.H})
		}
		lat := Pick(r, []time.Duration{2 * ms, p.H / 10, p.H / 4})
		p.Store = healthyStore(r, lat)
		if r.Bool(0.5) {
			p.Store.Dialect = "mock"
		}
		p.Actions = append(p.Actions, Action{At: 0, Kind: AStart, Inst: 0})
		for i := 2; i < len(p.Insts); i++ {
			p.Actions = append(p.Actions, Action{At: r.Dur(0, 3*p.H), Kind: AStart, Inst: i})
		}
		k := 2 + r.Intn(5) // the refresh that goes wrong
		switch r.Intn(6) {
		case 0:
			p.Faults = append(p.Faults, Fault{Kind: FError, Inst: 0, Op: "update", OpN: k, Err: Pick(r, []string{"timeout", "noresponders", "deadline"})})
		case 1:
			p.Faults = append(p.Faults, Fault{Kind: FSlow, Inst: 0, Op: "update", OpN: k, Arg: r.Dur(T, T+p.H)})
		case 2:
			p.Faults = append(p.Faults, Fault{Kind: FDropResp, Inst: 0, Op: "update", OpN: k})
		case 3:
			p.Faults = append(p.Faults, Fault{Kind: FDropReq, Inst: 0, Op: "update", OpN: k})
		case 4:
			from := time.Duration(k)*p.H + r.Dur(0, p.H)
			p.Faults = append(p.Faults, Fault{Kind: FPartition, Inst: 0, From: from, To: from + r.Dur(p.H/2, p.TTL+p.H)})
		default:
			// two wrong refreshes in a row
			p.Faults = append(p.Faults, Fault{Kind: FError, Inst: 0, Op: "update", OpN: k, Err: "timeout"},
				Fault{Kind: Pick(r, []string{FSlow, FError}), Inst: 0, Op: "update", OpN: k + 1, Err: "timeout", Arg: r.Dur(T, T+p.H/2)})
		}
		// the namesake starts around the wrong refresh: at its invocation, its application, its
		// answer, or up to two intervals later
		st := Action{Kind: AStart, Inst: 1, OnInst: 1, OpN: k, OpKind: "update", Phase: Pick(r, []string{"invoke", "apply", "return"}), Delay: Pick(r, []time.Duration{0, 0, r.Dur(0, p.H), r.Dur(0, 2*p.H)})}
		p.Actions = append(p.Actions, st)
		p.Until = time.Duration(k+6)*p.H + 2*p.TTL + 2*T
		if r.Bool(0.4) {
			// later the namesake leaves again (gracefully or not) and the first object may return
			p.Actions = append(p.Actions, Action{At: time.Duration(k+3)*p.H + r.Dur(0, p.TTL), Kind: Pick(r, []string{AStop, AStopCtx, ACrash}), Inst: 1, DeleteKey: r.Bool(0.5)})
		}
		p.Tail = 0
		p.Sched = SchedCfg{YieldProb: Pick(r, []float64{0, 0.2, 0.5}), StallMax: Pick(r, []time.Duration{0, 0, p.H / 20, p.H})}
		return p
	}
}

func init() {
	// "c02restart": fault-free (every operation below H/2, stalls at most H/50). The leader shuts down
	// gracefully with DeleteKey and the application starts the same election object again while that
	// call is still busy deleting the key: at the invocation, the application or the answer of the
	// Delete (or a little later). The run that Start begins meets the previous term's record, which is
	// about to disappear under it; other instances follow and fill the vacancy.
	families["c02restart"] = func(r *Rng) *Plan {
		p := &Plan{Judge: []string{"C02", "C07", "C01", "C05", "C08", "C18", "C19"}, StartDuringStop: true,
			NoJudge: []string{"C09"}}
		baseTiming(r, p, []time.Duration{100 * ms, 200 * ms, 500 * ms, 1 * sec, 2 * sec})
		n := 1 + r.Intn(3)
		p.Insts = mkInsts(r, n, 1)
		for i := range p.Insts {
			p.Insts[i].V = Pick(r, []time.Duration{0, p.H, 2 * p.H})
		}
		p.Store = healthyStore(r, p.H/2)
		p.Actions = append(p.Actions, Action{At: 0, Kind: AStart, Inst: 0})
		for i := 1; i < n; i++ {
			p.Actions = append(p.Actions, Action{At: r.Dur(p.H/2, 2*p.H), Kind: AStart, Inst: i})
		}
		t := r.Dur(2*p.H, 6*p.H)
		cycles := 1 + r.Intn(3)
		nDel := 0
		for k := 0; k < cycles; k++ {
			p.Actions = append(p.Actions, Action{At: t, Kind: AStopCtx, Inst: 0, DeleteKey: true, WaitForDemote: r.Bool(0.3)})
			nDel++
			for j := 0; j < 1+r.Intn(2); j++ {
				p.Actions = append(p.Actions, Action{Kind: AStart, Inst: 0, OpN: nDel, OpKind: "delete", Phase: Pick(r, []string{"invoke", "invoke", "apply", "return"}),
					Delay: Pick(r, []time.Duration{0, 0, r.Dur(0, p.H/10), r.Dur(0, p.H)})})
			}
			// in case the instance did not lead (no Delete was issued): start it again later anyway
			p.Actions = append(p.Actions, Action{At: t + r.Dur(p.H, 3*p.H), Kind: AStart, Inst: 0})
			t += r.Dur(p.TTL+2*p.H, 2*p.TTL+4*p.H)
		}
		p.Until = t + p.TTL
		p.Tail = p.TTL + 2*sec
		statusCalls(r, p)
		p.Sched = SchedCfg{YieldProb: Pick(r, []float64{0, 0.1, 0.4}), StallMax: Pick(r, []time.Duration{0, 0, p.H / 50})}
		return p
	}
}

func init() {
	// "c11lock": family c11 with goroutines parked inside critical sections (pure reorderings: a
	// nested lock acquisition or release under the election mutex is a point at which goroutines
	// that do not need that mutex - the connection notifications' handlers - get their turn), and
	// disconnect notifications that arrive at the very instant one of the instance's reads is
	// answered: e.g. between the reconnect verification's look at the connection status and its
	// update of it.
	families["c11lock"] = func(r *Rng) *Plan {
		p := families["c11"](r)
		p.Judge = []string{"C11"}
		p.Sched = SchedCfg{YieldProb: Pick(r, []float64{0.3, 0.6}), StallMax: 0, InLock: Pick(r, []float64{0.3, 0.6})}
		for i := range p.Insts {
			// the leadership flag is polled (at every park inside a critical section and every lock
			// release): a Metrics observer would report a change only where the library calls it,
			// which may be after the point at which the goroutine is parked
			p.Insts[i].NoMetrics = true
		}
		// reconnects (each starts a verification: 100 ms, a read, the validation read), each followed
		// by a disconnect at the answer of one of the next reads
		nGet := 0
		for k := 0; k < 2+r.Intn(4); k++ {
			nGet += 1 + r.Intn(4)
			p.Actions = append(p.Actions, Action{Kind: ADisconnect, Inst: 0, OpN: nGet, OpKind: "get", Phase: "return"})
		}
		t := r.Dur(2*p.H, 8*p.H)
		for k := 0; k < 1+r.Intn(3); k++ {
			p.Actions = append(p.Actions, Action{At: t, Kind: AReconnect, Inst: 0})
			t += r.Dur(200*ms, 3*p.H+sec)
		}
		if p.Until < t+graceOf(p, p.Insts[0])+3*sec {
			p.Until = t + graceOf(p, p.Insts[0]) + 3*sec
		}
		return p
	}
}

func init() {
	// "c09probe": the leader's health probe has no deadline of its own: one of its checks blocks
	// for longer than a stop call is prepared to wait (Stop's cap is 5s; StopWithContext has the
	// caller's budget). The instance is stopped while its heartbeat loop is inside that check.
	// When the probe finally answers, the instance has been stopped for a while: nothing may follow.
	families["c09probe"] = func(r *Rng) *Plan {
		p := &Plan{Judge: []string{"C09", "C18", "C08", "C19"}}
		baseTiming(r, p, []time.Duration{100 * ms, 200 * ms, 500 * ms, 1 * sec, 2 * sec})
		n := 1 + r.Intn(2)
		p.Insts = mkInsts(r, n, 1)
		k := 2 + r.Intn(5) // the tick whose check blocks
		block := r.Dur(5200*ms, 9*sec)
		for i := range p.Insts {
			c := &p.Insts[i]
			c.V = Pick(r, []time.Duration{0, p.H, 2 * p.H})
			c.HasHealth, c.HealthRest, c.MaxHealth = true, "h", Pick(r, []int{0, 1, 2})
			sb := []byte{}
			for j := 0; j < k; j++ {
				sb = append(sb, 'h')
			}
			sb = append(sb, Pick(r, []byte{'B', 'B', 'b'}))
			c.Health = string(sb)
			c.HealthBlock = block
			p.Actions = append(p.Actions, Action{At: time.Duration(i) * r.Dur(p.H, 3*p.H), Kind: AStart, Inst: i})
		}
		p.Store = healthyStore(r, Pick(r, []time.Duration{p.H / 2, p.H / 10}))
		// the leader (instance 0) is inside the blocking check from about (k+1) intervals after its promotion
		t := time.Duration(k+1)*p.H + r.Dur(p.H/4, block/2)
		kind := Pick(r, []string{AStop, AStop, AStopCtx})
		a := Action{At: t, Kind: kind, Inst: 0}
		if kind == AStopCtx {
			a.DeleteKey, a.WaitForDemote = r.Bool(0.5), r.Bool(0.5)
			a.Timeout = Pick(r, []time.Duration{0, 1 * sec, 3 * sec})
		}
		p.Actions = append(p.Actions, a)
		if r.Bool(0.3) {
			p.Actions = append(p.Actions, Action{At: t + r.Dur(0, 6*sec), Kind: AStop, Inst: 0})
		}
		p.Until = t + block + 3*sec + p.TTL
		p.Tail = 0
		statusCalls(r, p)
		p.Sched = SchedCfg{YieldProb: Pick(r, []float64{0, 0.2, 0.5}), StallMax: 0}
		return p
	}
}

func init() {
	// "ctxfollower": a FOLLOWER's run is ended by cancelling the context given to Start while one of
	// its periodic reads is on its way to a slow store, and Start is called again before that read
	// is answered: the previous run's watch loop is still alive (waiting for the answer) when the
	// new run becomes a follower. Later the record changes hands, and later still it is removed
	// with the watch notifications dropped: the restarted follower must follow (LeaderID) and
	// must fill the vacancy.
	families["ctxfollower"] = func(r *Rng) *Plan {
		p := &Plan{Judge: []string{"C06", "C18", "C08", "C19", "C05"}, NoJudge: []string{"C02", "C07", "C09"}}
		baseTiming(r, p, []time.Duration{100 * ms, 200 * ms, 500 * ms, 1 * sec})
		n := 2 + r.Intn(2)
		p.Insts = mkInsts(r, n, 1)
		for i := range p.Insts {
			p.Insts[i].V = Pick(r, []time.Duration{0, p.H, 2 * p.H})
		}
		p.Store = healthyStore(r, p.H/10)
		// instance 1 leads first; instance 0 (the one that is restarted) follows
		p.Actions = append(p.Actions, Action{At: 0, Kind: AStart, Inst: 1})
		p.Actions = append(p.Actions, Action{At: r.Dur(p.H, 2*p.H), Kind: AStart, Inst: 0})
		for i := 2; i < n; i++ {
			p.Actions = append(p.Actions, Action{At: r.Dur(p.H, 3*p.H), Kind: AStart, Inst: i})
		}
		k := 2 + r.Intn(4) // the follower's k-th read is slow
		slow := r.Dur(400*ms, 2*sec)
		p.Faults = append(p.Faults, Fault{Kind: FSlow, Inst: 0, Op: "get", OpN: k, Arg: slow})
		cd := r.Dur(0, slow/3)
		p.Actions = append(p.Actions, Action{Kind: ACancelStart, Inst: 0, OpKind: "get", OpN: k, Phase: "invoke", Delay: cd})
		p.Actions = append(p.Actions, Action{Kind: AStart, Inst: 0, OpKind: "get", OpN: k, Phase: "invoke", Delay: cd + Pick(r, []time.Duration{0, 1, r.Dur(0, slow/3)})})
		// the read is issued at about 2H + k/2 seconds: afterwards the leader hands over, then the key is removed
		t := 2*p.H + time.Duration(k)*500*ms + slow + r.Dur(sec, 3*sec)
		p.Actions = append(p.Actions, Action{At: t, Kind: AStopCtx, Inst: 1, DeleteKey: true})
		t += r.Dur(2*sec, 4*sec)
		if r.Bool(0.6) {
			p.Faults = append(p.Faults, Fault{Kind: FWatchDrop, Inst: -1, From: t - sec, To: t + 20*sec})
		}
		p.Actions = append(p.Actions, Action{At: t, Kind: Pick(r, []string{AOutDelete, AExpire}), Key: "g1"})
		if n > 2 && r.Bool(0.5) {
			// the other candidates have left by then: the restarted follower is the only one
			for i := 2; i < n; i++ {
				p.Actions = append(p.Actions, Action{At: t - r.Dur(100*ms, sec), Kind: AStop, Inst: i})
			}
		}
		p.Until = t + p.TTL + 4*sec
		p.Tail = p.TTL + 2*sec
		statusCalls(r, p)
		p.Sched = SchedCfg{YieldProb: Pick(r, []float64{0, 0.2, 0.5}), StallMax: Pick(r, []time.Duration{0, 0, p.H / 50})}
		return p
	}
}

func init() {
	// "c11reacq": a reconnect notification reaches the leader; while its verification is on its way
	// (100 ms, then two reads, slow here) the term that was leading ends for another reason - the
	// record is removed and the application's ValidateTokenOrDemote notices - and the same instance
	// wins the vacancy again at once. The verification then reads the record of the NEW term: own
	// identity, current token - the instance keeps leading.
	families["c11reacq"] = func(r *Rng) *Plan {
		p := &Plan{Judge: []string{"C11", "C08", "C19", "C05"}}
		p.H = Pick(r, []time.Duration{200 * ms, 500 * ms, 1 * sec, 2 * sec})
		p.TTL = Pick(r, []time.Duration{3 * p.H, 5 * p.H, 10 * p.H})
		p.Insts = mkInsts(r, 1, 1)
		c := &p.Insts[0]
		c.Monitor = true
		c.Grace = Pick(r, []time.Duration{0, 2 * p.H, 10 * p.H})
		c.V = Pick(r, []time.Duration{0, 0, 3 * p.H})
		p.Store = healthyStore(r, Pick(r, []time.Duration{2 * ms, 10 * ms}))
		p.Store.WatchDelay = [2]Dur{0, 2 * ms}
		p.Actions = append(p.Actions, Action{At: 0, Kind: AStart, Inst: 0})
		t := r.Dur(2*p.H, 6*p.H)
		for k := 0; k < 1+r.Intn(3); k++ {
			if r.Bool(0.5) {
				p.Actions = append(p.Actions, Action{At: t - r.Dur(10*ms, 2*sec), Kind: ADisconnect, Inst: 0})
			}
			p.Actions = append(p.Actions, Action{At: t, Kind: AReconnect, Inst: 0})
			td := t + r.Dur(0, 30*ms)
			p.Actions = append(p.Actions, Action{At: td, Kind: Pick(r, []string{AOutDelete, AExpire}), Key: "g1"})
			p.Actions = append(p.Actions, Action{At: td + r.Dur(0, 10*ms), Kind: AValidateOD, Inst: 0})
			t += r.Dur(3*sec, 6*sec) + 2*p.H
		}
		p.Until = t + graceOf(p, *c) + 2*sec
		p.Tail = 0
		p.Sched = SchedCfg{YieldProb: Pick(r, []float64{0, 0.3}), StallMax: 0}
		return p
	}
}

func init() {
	// "staleterm": what a goroutine of an EARLIER term does to the current one. One instance leads;
	// a goroutine of its term is held up (300 ms - 1 s) right after it got the answer of a refresh
	// or of a validation read; meanwhile the record is removed, the application's
	// ValidateTokenOrDemote ends the term and the instance wins the vacancy again; then the held-up
	// goroutine goes on. The new term's revision, token and status must be its own.
	families["staleterm"] = func(r *Rng) *Plan {
		p := &Plan{Judge: []string{"C18", "C05", "C08", "C19"}}
		p.H = Pick(r, []time.Duration{200 * ms, 500 * ms, 1 * sec, 2 * sec})
		p.TTL = Pick(r, []time.Duration{3 * p.H, 5 * p.H, 10 * p.H})
		p.Insts = mkInsts(r, 1, 1)
		c := &p.Insts[0]
		c.V = Pick(r, []time.Duration{0, p.H, 2 * p.H})
		p.Store = healthyStore(r, Pick(r, []time.Duration{2 * ms, 20 * ms}))
		p.Store.WatchDelay = [2]Dur{0, 2 * ms}
		p.Actions = append(p.Actions, Action{At: 0, Kind: AStart, Inst: 0})
		kindOp, site := "update", "heartbeat.result"
		if c.V > 0 && r.Bool(0.4) {
			kindOp, site = "get", "validation.result"
		}
		n := 0
		for k := 0; k < 1+r.Intn(3); k++ {
			n += 2 + r.Intn(4)
			// at the answer of the n-th refresh (validation read): the record goes, the application notices
			d0 := r.Dur(0, 20*ms)
			p.Actions = append(p.Actions, Action{Kind: Pick(r, []string{AOutDelete, AExpire}), Key: "g1", Inst: 0, OnInst: 1, OpKind: kindOp, OpN: n, Phase: "return", Delay: d0})
			p.Actions = append(p.Actions, Action{Kind: AValidateOD, Inst: 0, OpKind: kindOp, OpN: n, Phase: "return", Delay: d0 + r.Dur(0, 20*ms)})
		}
		p.Until = time.Duration(n+6)*p.H + 3*sec
		p.Tail = 0
		statusCalls(r, p)
		p.Sched = SchedCfg{YieldProb: 0.5, StallMax: Pick(r, []time.Duration{300 * ms, 600 * ms, 1 * sec}), StallSites: []string{site}}
		return p
	}
}

func init() {
	// "c05lock": a leader's heartbeat tick and the end of its term at one virtual instant, with
	// goroutines parked inside critical sections and in front of atomic operations: the term is ended
	// - by ValidateTokenOrDemote on a cancelled context, by Stop/StopWithContext, by a grace period
	// running out - exactly one heartbeat interval after the k-th refresh was issued, i.e. at the
	// moment the next tick fires. Whatever the tick's goroutine has read before it is held up and
	// whatever it reads afterwards must still make one consistent refresh (or none).
	families["c05lock"] = func(r *Rng) *Plan {
		p := &Plan{Judge: []string{"C05", "C08", "C19", "C01"}}
		p.H = Pick(r, []time.Duration{100 * ms, 200 * ms, 500 * ms})
		p.TTL = Pick(r, []time.Duration{3 * p.H, 5 * p.H})
		p.Insts = mkInsts(r, 1+r.Intn(2), 1)
		for i := range p.Insts {
			p.Insts[i].V = Pick(r, []time.Duration{0, p.H, 2 * p.H})
			p.Insts[i].NoMetrics = true
			if r.Bool(0.3) {
				p.Insts[i].HasHealth, p.Insts[i].HealthRest = true, "h"
			}
		}
		p.Store = healthyStore(r, Pick(r, []time.Duration{2 * ms, p.H / 10}))
		p.Actions = append(p.Actions, Action{At: 0, Kind: AStart, Inst: 0})
		for i := 1; i < len(p.Insts); i++ {
			p.Actions = append(p.Actions, Action{At: r.Dur(p.H, 2*p.H), Kind: AStart, Inst: i})
		}
		k := 1 + r.Intn(4)
		switch r.Intn(4) {
		case 0:
			p.Actions = append(p.Actions, Action{Kind: AValidateOD, Inst: 0, CtxCancelled: true, OpKind: "update", OpN: k, Phase: "invoke", Delay: p.H})
		case 1:
			p.Actions = append(p.Actions, Action{Kind: AStop, Inst: 0, OpKind: "update", OpN: k, Phase: "invoke", Delay: p.H})
		case 2:
			p.Actions = append(p.Actions, Action{Kind: AStopCtx, Inst: 0, DeleteKey: r.Bool(0.5), OpKind: "update", OpN: k, Phase: "invoke", Delay: p.H})
		default:
			// a disconnect whose grace period (2H) runs out at the instant of tick k+1
			p.Insts[0].Monitor, p.Insts[0].Grace = true, 2*p.H
			if k < 2 {
				k = 2
			}
			p.Actions = append(p.Actions, Action{Kind: ADisconnect, Inst: 0, OpKind: "update", OpN: k - 1, Phase: "invoke"})
		}
		p.Until = time.Duration(k+3)*p.H + p.TTL + sec
		p.Tail = 0
		statusCalls(r, p)
		p.Sched = SchedCfg{YieldProb: Pick(r, []float64{0.5, 0.8}), StallMax: 0, InLock: Pick(r, []float64{0.4, 0.7})}
		return p
	}
}

func init() {
	// "c09retry": a graceful shutdown that is given too little time and is then repeated. The
	// leader's k-th refresh is slow at the store; StopWithContext{short time-out} comes while it is
	// in flight, waits for it in vain and gives up (the term is over, OnDemote is not reported, the
	// record stays); when the refresh has been answered the application calls
	// StopWithContext{DeleteKey} again, which succeeds: the instance still owns the record, and the
	// record must be gone when that call returns.
	families["c09retry"] = func(r *Rng) *Plan {
		p := &Plan{Judge: []string{"C09", "C01", "C08", "C18", "C19"}}
		baseTiming(r, p, []time.Duration{100 * ms, 200 * ms, 500 * ms, 1 * sec})
		n := 1 + r.Intn(2)
		p.Insts = mkInsts(r, n, 1)
		for i := range p.Insts {
			p.Insts[i].V = Pick(r, []time.Duration{0, p.H, 2 * p.H})
			p.Actions = append(p.Actions, Action{At: time.Duration(i) * r.Dur(p.H, 3*p.H), Kind: AStart, Inst: i})
		}
		p.Store = healthyStore(r, p.H/10)
		k := 2 + r.Intn(4)
		slow := r.Dur(300*ms, 900*ms)
		p.Faults = append(p.Faults, Fault{Kind: FSlow, Inst: 0, Op: "update", OpN: k, Arg: slow})
		p.Actions = append(p.Actions, Action{Kind: AStopCtx, Inst: 0, DeleteKey: r.Bool(0.7), Timeout: Pick(r, []time.Duration{20 * ms, 50 * ms, 100 * ms}),
			OpKind: "update", OpN: k, Phase: "invoke", Delay: r.Dur(0, 10*ms)})
		p.Actions = append(p.Actions, Action{Kind: AStopCtx, Inst: 0, DeleteKey: true, WaitForDemote: r.Bool(0.5),
			OpKind: "update", OpN: k, Phase: "return", Delay: Pick(r, []time.Duration{0, r.Dur(0, p.H), r.Dur(0, p.TTL/2)})})
		p.Until = time.Duration(k+2)*p.H + slow + 2*p.TTL + 2*sec
		p.Tail = 0
		statusCalls(r, p)
		p.Sched = SchedCfg{YieldProb: Pick(r, []float64{0, 0.2, 0.5}), StallMax: 0}
		return p
	}
}

func init() {
	// "c04turn": ValidateTokenOrDemote ends a term whose OnPromote has not had its turn in the
	// callback order yet. One or two instances; the record is replaced by an outsider at the very
	// moment the instance's Create is applied; the application validates shortly after that Create
	// is answered (the promotion), while the goroutine that is to run OnPromote is held up for a
	// few store round trips. The call may return false only when OnDemote has been invoked.
	families["c04turn"] = func(r *Rng) *Plan {
		p := &Plan{Judge: []string{"C04", "C08"}}
		baseTiming(r, p, []time.Duration{200 * ms, 500 * ms, 1 * sec, 2 * sec})
		n := 1 + r.Intn(2)
		p.Insts = mkInsts(r, n, 1)
		for i := range p.Insts {
			p.Insts[i].V = Pick(r, []time.Duration{0, 3 * p.H})
			p.Actions = append(p.Actions, Action{At: time.Duration(i) * r.Dur(p.H, 2*p.H), Kind: AStart, Inst: i})
		}
		lat := Pick(r, []time.Duration{p.H / 20, p.H / 10})
		p.Store = healthyStore(r, lat)
		for kth := 1; kth <= 1+r.Intn(2); kth++ {
			p.Actions = append(p.Actions, Action{Kind: AOutPut, Key: "g1", Value: []byte(`{"id":"intruder","token":"00000000-0000-4000-8000-000000000009","priority":9}`),
				OnInst: 1, OpKind: "create", OpN: kth, Phase: "apply"})
			p.Actions = append(p.Actions, Action{Kind: AValidateOD, Inst: 0, OpKind: "create", OpN: kth, Phase: "return", Delay: Pick(r, []time.Duration{r.Dur(0, 2*ms), r.Dur(0, lat), r.Dur(0, 4*lat)})})
			p.Actions = append(p.Actions, Action{Kind: AOutDelete, Key: "g1", OnInst: 1, OpKind: "create", OpN: kth, Phase: "return", Delay: r.Dur(p.H, 3*p.H)})
		}
		p.Until = 8*p.H + 2*p.TTL
		p.Tail = 0
		p.Sched = SchedCfg{YieldProb: Pick(r, []float64{0.3, 0.6}), StallMax: Pick(r, []time.Duration{2 * lat, 4 * lat, 8 * lat})}
		return p
	}
}
