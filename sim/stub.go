package sim

import (
	"context"
	"time"

	leader "github.com/ali-assar/NATS-Leader-Election/leader"
	"github.com/nats-io/nats.go"
)

// ---- nats.KeyValue stub (binding "adapter": the library's real adapters sit on top) ----

type stubKV struct {
	nats.KeyValue // unimplemented methods panic (nil embedded interface)
	d             *Driver
	inst          int
	obj           *elObj
	bucket        string
}

func (k *stubKV) Bucket() string { return k.bucket }

func (k *stubKV) Create(key string, value []byte) (uint64, error) {
	r := k.d.invoke(&Op{Inst: k.inst, obj: k.obj, Kind: "create", Key: key, Val: append([]byte(nil), value...)})
	return r.rev, r.err
}

func (k *stubKV) Update(key string, value []byte, last uint64) (uint64, error) {
	r := k.d.invoke(&Op{Inst: k.inst, obj: k.obj, Kind: "update", Key: key, Val: append([]byte(nil), value...), Rev: last})
	return r.rev, r.err
}

func (k *stubKV) Get(key string) (nats.KeyValueEntry, error) {
	r := k.d.invoke(&Op{Inst: k.inst, obj: k.obj, Kind: "get", Key: key})
	if r.err != nil {
		return nil, r.err
	}
	return &stubEntry{bucket: k.bucket, v: r.entry}, nil
}

func (k *stubKV) Delete(key string, opts ...nats.DeleteOpt) error {
	r := k.d.invoke(&Op{Inst: k.inst, obj: k.obj, Kind: "delete", Key: key})
	return r.err
}

func (k *stubKV) Put(key string, value []byte) (uint64, error) {
	r := k.d.invoke(&Op{Inst: k.inst, obj: k.obj, Kind: "put", Key: key, Val: append([]byte(nil), value...)})
	return r.rev, r.err
}

func (k *stubKV) Watch(keys string, opts ...nats.WatchOpt) (nats.KeyWatcher, error) {
	r := k.d.invoke(&Op{Inst: k.inst, obj: k.obj, Kind: "watch", Key: keys})
	if r.err != nil {
		return nil, r.err
	}
	return r.sub, nil
}

type stubEntry struct {
	bucket string
	v      *Version
}

func (e *stubEntry) Bucket() string     { return e.bucket }
func (e *stubEntry) Key() string        { return e.v.Key }
func (e *stubEntry) Value() []byte      { return e.v.Val }
func (e *stubEntry) Revision() uint64   { return e.v.Seq }
func (e *stubEntry) Created() time.Time { return time.Unix(0, 0).Add(e.v.At) }
func (e *stubEntry) Delta() uint64      { return 0 }
func (e *stubEntry) Operation() nats.KeyValueOp {
	if e.v.Op == opDel {
		return nats.KeyValueDelete
	}
	return nats.KeyValuePut
}

// Sub is one watch subscription: a stable channel fed by driver deliveries.
type Sub struct {
	d       *Driver
	id      int
	inst    int
	gen     int
	obj     *elObj
	key     string
	ch      chan nats.KeyValueEntry
	errs    chan error
	closed  bool
	lastAt  time.Duration
	sent    int
	lastSeq uint64 // highest revision delivered
	created time.Duration
	queue   []subMsg // deliveries in flight, FIFO
}

type subMsg struct {
	v *Version
}

func (s *Sub) Context() context.Context           { return context.Background() }
func (s *Sub) Updates() <-chan nats.KeyValueEntry { return s.ch }
func (s *Sub) Error() <-chan error                { return s.errs }
func (s *Sub) Stop() error {
	mu := &s.d.mu
	if s.d.free {
		mu = &s.d.smu
	}
	mu.Lock()
	defer mu.Unlock()
	s.closeLocked()
	return nil
}

func (s *Sub) closeLocked() {
	if !s.closed {
		s.closed = true
		close(s.ch)
	}
}

const watchBuf = 256

// newSub is the apply step of Watch. Caller holds d.mu.
func (d *Driver) newSub(op *Op, now time.Duration) *Sub {
	s := &Sub{d: d, id: len(d.subs), inst: op.Inst, gen: op.Gen, obj: op.obj, key: op.Key,
		ch: make(chan nats.KeyValueEntry, watchBuf), errs: make(chan error, 1), created: now}
	d.subs = append(d.subs, s)
	// initial data: last message of the key (PUT or DEL marker), then the nil marker
	if v := d.store.Last(op.Key, now); v != nil {
		d.scheduleDelivery(s, v, false)
	}
	d.scheduleDelivery(s, nil, true)
	return s
}

// onMutation fans a new version out to the key's subscriptions. Caller holds d.mu.
func (d *Driver) onMutation(v *Version) {
	for _, s := range d.subs {
		if s.closed || s.key != v.Key {
			continue
		}
		d.scheduleDelivery(s, v, false)
	}
}

func (d *Driver) watchFault(kind string, inst int, t time.Duration) *Fault {
	for i := range d.plan.Faults {
		f := &d.plan.Faults[i]
		if f.Kind == kind && d.inWindow(f, inst, "", t) {
			if f.Prob > 0 && f.Prob < 1 && !d.rFault.Bool(f.Prob) {
				continue
			}
			return f
		}
	}
	return nil
}

func (d *Driver) scheduleDelivery(s *Sub, v *Version, marker bool) {
	if d.free {
		// free-run mode: delivered at once by the goroutine that applied the write
		if s.closed {
			return
		}
		var e nats.KeyValueEntry
		if v != nil {
			e = &stubEntry{bucket: d.plan.Bucket, v: v}
		}
		select {
		case s.ch <- e:
		default:
		}
		return
	}
	now := d.lastNow
	if !marker {
		if f := d.watchFault(FWatchDrop, s.inst, now); f != nil {
			d.fault(FWatchDrop)
			d.logf("watch-drop sub%d i%d", s.id, s.inst)
			return
		}
	}
	at := now + d.rWatch.Dur(d.plan.Store.WatchDelay[0], d.plan.Store.WatchDelay[1])
	if f := d.watchFault(FWatchHold, s.inst, now); f != nil && f.To > 0 {
		if at < f.To {
			at = f.To
			d.fault(FWatchHold)
		}
	}
	if part, to := d.partitioned(s.inst, s.obj, now); part {
		if to == 0 {
			d.fault("watch_partition_drop")
			return
		}
		if at < to {
			at = to
		}
		d.fault("watch_partition_hold")
	}
	if at < s.lastAt {
		at = s.lastAt // order preserving within one subscription
	}
	s.lastAt = at
	n := 1
	if !marker {
		if f := d.watchFault(FWatchDup, s.inst, now); f != nil {
			n = 2
			d.fault(FWatchDup)
		}
	}
	for i := 0; i < n; i++ {
		s.queue = append(s.queue, subMsg{v})
		d.push(at, "deliver", func() { d.deliver(s) })
	}
}

func (d *Driver) deliver(s *Sub) {
	d.mu.Lock()
	defer d.mu.Unlock()
	if len(s.queue) == 0 {
		return
	}
	v := s.queue[0].v
	s.queue = s.queue[1:]
	if s.closed {
		return
	}
	var e nats.KeyValueEntry
	if v != nil {
		e = &stubEntry{bucket: d.plan.Bucket, v: v}
	}
	select {
	case s.ch <- e:
		s.sent++
		d.stats.Deliveries++
		if v != nil {
			if v.Seq < s.lastSeq {
				d.probe("watch_out_of_order")
			}
			s.lastSeq = v.Seq
			d.logf("deliver sub%d i%d seq=%d op=%d", s.id, s.inst, v.Seq, v.Op)
			// a late notification that no longer describes the key's latest message (the follower may
			// legitimately believe it until it reads the key again)
			if in := d.inst(s.inst); in != nil {
				if last := d.store.Last(v.Key, d.now()); last != nil && last.Seq > v.Seq {
					in.lastStaleEvtAt = d.now()
				}
			}
			// probe: event naming another id delivered to a current leader
			if in := d.inst(s.inst); in != nil && s.obj != nil && s.obj.el.IsLeader() && v.P.OK && v.P.ID != in.cfg.ID {
				d.probe("foreign_event_to_leader")
			}
		} else {
			d.logf("deliver sub%d i%d marker", s.id, s.inst)
		}
	default:
		d.probe("watch_buffer_full")
	}
}

func (d *Driver) closeWatches(f *Fault) {
	d.mu.Lock()
	defer d.mu.Unlock()
	for _, s := range d.subs {
		if (f.Inst < 0 || f.Inst == s.inst) && !s.closed {
			s.closeLocked()
			d.fault(FWatchClose)
			d.logf("watch-close sub%d i%d", s.id, s.inst)
		}
	}
}

// ---- providers ----

type simProvider struct {
	d    *Driver
	inst int
	conn *nats.Conn // non-nil => NATSConnectionProvider
	js   *simJS
}

type simProviderMon struct{ *simProvider }

func (p *simProviderMon) NATSConnection() *nats.Conn { return p.conn }

func (p *simProvider) JetStream() (leader.JetStreamContext, error) { return p.js, nil }

type simJS struct {
	d    *Driver
	inst int
	obj  *elObj
}

func (j *simJS) KeyValue(bucket string) (leader.KeyValue, error) {
	st := &stubKV{d: j.d, inst: j.inst, obj: j.obj, bucket: bucket}
	if j.d.plan.Store.Binding == "direct" {
		return &directKV{st}, nil
	}
	return leader.VerifNewKeyValue(st), nil
}

// ---- binding "direct": the stub implements leader.KeyValue itself ----

type directKV struct{ st *stubKV }

func (k *directKV) Create(key string, value []byte, opts ...interface{}) (uint64, error) {
	return k.st.Create(key, value)
}
func (k *directKV) Update(key string, value []byte, rev uint64, opts ...interface{}) (uint64, error) {
	return k.st.Update(key, value, rev)
}
func (k *directKV) Get(key string) (leader.Entry, error) {
	e, err := k.st.Get(key)
	if err != nil {
		return nil, err
	}
	return e.(*stubEntry), nil
}
func (k *directKV) Delete(key string) error { return k.st.Delete(key) }
func (k *directKV) Watch(key string, opts ...interface{}) (leader.Watcher, error) {
	w, err := k.st.Watch(key)
	if err != nil {
		return nil, err
	}
	return &directWatcher{sub: w.(*Sub)}, nil
}

type directWatcher struct {
	sub *Sub
	out chan leader.Entry
}

// Updates returns one stable channel (what the store contract promises).
func (w *directWatcher) Updates() <-chan leader.Entry {
	w.sub.d.mu.Lock()
	defer w.sub.d.mu.Unlock()
	if w.out == nil {
		w.out = make(chan leader.Entry, 1)
		go func() {
			defer close(w.out)
			for e := range w.sub.ch {
				if e == nil {
					w.out <- nil
				} else {
					w.out <- e.(*stubEntry)
				}
			}
		}()
	}
	return w.out
}
func (w *directWatcher) Stop() { _ = w.sub.Stop() }
