package sim

import (
	"fmt"
	"hash/fnv"
	"runtime"
	"strings"
	"time"
)

// Recorded history of one run. Everything is stamped with the global step
// number (driver event sequence) and the virtual time.

type Op struct {
	ID           int
	Inst         int // -1 outsider
	Gen          int
	Kind         string // create update get delete watch
	Key          string
	Val          []byte
	Rev          uint64 // expected revision (update)
	Caller       string // chain of leader.* functions that issued it, innermost first
	GID          uint64
	Nth          int // per-instance ordinal, 1-based
	NthKind      int // per-instance ordinal among ops of this kind
	TInvoke      time.Duration
	TApply       time.Duration // -1 = never applied
	TRet         time.Duration // -1 = not returned (yet)
	SInvoke      uint64
	SApply       uint64
	SRet         uint64
	Applied      bool
	OK           bool // server verdict (only meaningful if Applied)
	ResRev       uint64
	Err          error // what the caller received
	SrvErr       error // server's verdict error
	Fault        string
	PrevLive     *Version // key's live PUT just before the apply step
	PrevLast     *Version // key's last message (PUT or DEL) just before the apply step
	New          *Version
	InStopDelete bool // issued from inside StopWithContext (DeleteKey)

	obj     *elObj
	ch      chan opResp
	resp    opResp
	retDone bool
}

type opResp struct {
	rev   uint64
	entry *Version
	sub   *Sub
	err   error
}

type ClaimEvt struct {
	Ord       uint64
	Inst, Gen int
	Val       bool // new value of the flag
	Edge      bool // value changed
	T         time.Duration
	Step      uint64
	Stack     string // leader.* frames, innermost first
	Token     string // Token() right after the change
	// snapshot at the same step
	Leaders      []int    // instances of the same group with IsLeader()==true (live objects)
	Live         *Version // live record of the group at that step
	AfterStopRet bool
}

type TransEvt struct {
	Inst, Gen int
	From, To  string
	T         time.Duration
	Step      uint64
}

type CbEvt struct {
	Ord       uint64
	Inst, Gen int
	Kind      string // promote_enter promote_exit demote_enter demote_exit ctx_done
	Token     string
	Term      int // promote ordinal of this instance object (for ctx_done / promote_*)
	T         time.Duration
	Step      uint64
	IsLeader  bool // IsLeader() observed by the callback at entry
}

type ApiEvt struct {
	ID          int
	Inst, Gen   int
	Kind        string
	Act         *Action
	TInv, TRet  time.Duration // TRet -1 while running
	SInv, SRet  uint64
	Err         error
	Bool        bool // result of validate calls
	startsAtInv int  // stop calls: successful Starts of the instance so far, at invocation
	duringStart bool // stop calls: invoked while a Start of the object had not returned
	// for validate: claim/token at invocation
	LeaderAtInv    bool
	TokenAtInv     string
	CtxDoneAtInv   bool
	WasLeaderAtInv bool
	OwnerAtInv     bool
	Panic          string
}

type HealthEvt struct {
	Ord       uint64
	Inst, Gen int
	T         time.Duration
	Step      uint64
	Result    byte          // 'h' 'u' 's'
	Deadline  time.Duration // relative to T; -1 = none
	Tick      int
}

type NotifEvt struct {
	DoneStep  uint64 // step at which the handler returned (0 = not yet)
	DoneOrd   uint64
	Inst, Gen int
	Leader    bool // IsLeader() when the notification was injected
	Kind      string
	T         time.Duration
	Step      uint64
}

type LogEvt struct {
	Inst, Gen int
	Msg       string
	T         time.Duration
	Step      uint64
}

type JitterEvt struct {
	T      time.Duration
	Step   uint64
	U      uint64
	F      float64
	GID    uint64
	Caller string
}

// QSample is an observation of one instance at a quiescent point.
type Violation struct {
	Prop   string `json:"prop"`
	Sig    string `json:"sig"`
	Detail string `json:"detail"`
	T      Dur    `json:"t"`
	Step   uint64 `json:"step"`
}

type Hist struct {
	Ops      []*Op
	Claims   []*ClaimEvt
	Trans    []*TransEvt
	Cbs      []*CbEvt
	Apis     []*ApiEvt
	Health   []*HealthEvt
	Notifs   []*NotifEvt
	Logs     []*LogEvt
	Jitters  []*JitterEvt
	Stalls   []StallEvt
	Attempts []*AttemptEvt
	Expiries []ExpiryEvt // starts of the grace-expiry handler
	Viol     []Violation

	ord uint64

	// event log
	lines   []string
	keepAll bool
	hash    uint64
	nlines  int
}

type ExpiryEvt struct {
	T    time.Duration
	Step uint64
	Ord  uint64
}

type AttemptEvt struct {
	GID  uint64
	T    time.Duration
	Step uint64
}

type StallEvt struct {
	Inst int
	T    time.Duration
	Site string
	D    time.Duration
	GID  uint64
}

const logRing = 400

func (h *Hist) logf(step uint64, t time.Duration, format string, args ...any) {
	line := fmt.Sprintf("%d %d ", step, int64(t)) + fmt.Sprintf(format, args...)
	f := fnv.New64a()
	var b [8]byte
	for i := 0; i < 8; i++ {
		b[i] = byte(h.hash >> (8 * i))
	}
	f.Write(b[:])
	f.Write([]byte(line))
	h.hash = f.Sum64()
	h.nlines++
	if h.keepAll || len(h.lines) < logRing {
		h.lines = append(h.lines, line)
	} else {
		h.lines[h.nlines%logRing] = line
	}
}

func (h *Hist) nextOrd() uint64 { h.ord++; return h.ord }

// Tail returns the last n log lines in order.
func (h *Hist) Tail(n int) []string {
	if h.keepAll || h.nlines <= logRing {
		if len(h.lines) > n {
			return h.lines[len(h.lines)-n:]
		}
		return h.lines
	}
	out := make([]string, 0, logRing)
	start := (h.nlines + 1) % logRing
	for i := 0; i < logRing; i++ {
		out = append(out, h.lines[(start+i)%logRing])
	}
	if len(out) > n {
		out = out[len(out)-n:]
	}
	return out
}

func (h *Hist) violate(prop, sig, detail string, t time.Duration, step uint64) {
	// keep at most a few per signature
	n := 0
	for _, v := range h.Viol {
		if v.Prop == prop && v.Sig == sig {
			n++
		}
	}
	if n >= 3 {
		return
	}
	h.Viol = append(h.Viol, Violation{prop, sig, detail, t, step})
}

// ---- call-site helpers ----

const leaderPkg = "github.com/ali-assar/NATS-Leader-Election/leader."

// leaderFrames returns the chain of library functions on the current stack,
// innermost first, with package path and receiver decoration stripped.
func leaderFrames(skip, max int) string {
	var pcs [48]uintptr
	n := runtime.Callers(skip+1, pcs[:])
	fr := runtime.CallersFrames(pcs[:n])
	var out []string
	for {
		f, more := fr.Next()
		if strings.HasPrefix(f.Function, leaderPkg) {
			name := strings.TrimPrefix(f.Function, leaderPkg)
			name = strings.NewReplacer("(*kvElection).", "", "(*disconnectHandler).", "dh.", "(*natsConnectionMonitor).", "mon.",
				"(*natsKeyValueAdapter).", "kva.", "(*natsWatcherAdapter).", "wa.").Replace(name)
			// collapse metrics helper frames
			switch name {
			case "updateIsLeaderMetric", "recordTransition", "kva.Create", "kva.Update", "kva.Get", "kva.Delete", "kva.Watch":
			default:
				if len(out) == 0 || out[len(out)-1] != name {
					out = append(out, name)
				}
			}
		}
		if !more || len(out) >= max {
			break
		}
	}
	return strings.Join(out, "<")
}

func stackDepth() int {
	var pcs [512]uintptr
	return runtime.Callers(0, pcs[:])
}

func goid() uint64 {
	var buf [40]byte
	n := runtime.Stack(buf[:], false)
	// "goroutine 123 ["
	var id uint64
	for _, c := range buf[10:n] {
		if c < '0' || c > '9' {
			break
		}
		id = id*10 + uint64(c-'0')
	}
	return id
}
