package sim

import (
	"container/heap"
	"context"
	"errors"
	"fmt"
	"sort"
	"sync"
	"sync/atomic"
	"testing/synctest"
	"time"

	"github.com/nats-io/nats.go"
)

// ---- events ----

type event struct {
	at   time.Duration
	tie  uint64
	seq  uint64
	kind string
	run  func()
}

type eventHeap []*event

func (h eventHeap) Len() int { return len(h) }
func (h eventHeap) Less(i, j int) bool {
	if h[i].at != h[j].at {
		return h[i].at < h[j].at
	}
	if h[i].tie != h[j].tie {
		return h[i].tie < h[j].tie
	}
	return h[i].seq < h[j].seq
}
func (h eventHeap) Swap(i, j int) { h[i], h[j] = h[j], h[i] }
func (h *eventHeap) Push(x any)   { *h = append(*h, x.(*event)) }
func (h *eventHeap) Pop() any {
	old := *h
	n := len(old)
	x := old[n-1]
	*h = old[:n-1]
	return x
}

// request from a library/client goroutine to the driver
type request struct {
	kind string // "op", "yield", "note"
	op   *Op
	y    *yieldReq
	note func()
}

type yieldReq struct {
	n    int
	inst int
	site string
	d    time.Duration
	ch   chan struct{}
	gid  uint64
	// inLock: the goroutine holds a library mutex while parked
	inLock bool
}

// Stats are per-run reach counters.
type Stats struct {
	Steps       uint64         `json:"steps"`
	Ops         int            `json:"ops"`
	Faults      map[string]int `json:"faults"`
	Probes      map[string]int `json:"probes"`
	Terms       int            `json:"terms"`
	Yields      int            `json:"yields"`
	VirtualNs   int64          `json:"virtual_ns"`
	Deliveries  int            `json:"deliveries"`
	InterleaveH uint64         `json:"interleave_hash"`
}

// Driver owns the virtual world of one run.
type Driver struct {
	mu    sync.Mutex
	smu   sync.Mutex // free-run mode: guards the store and the subscriptions
	plan  *Plan
	start time.Time
	h     *Hist
	store *Store
	insts []*Inst
	subs  []*Sub

	heap   eventHeap
	evseq  uint64
	inbox  []*request
	wake   chan struct{}
	step   uint64
	stepAt atomic.Uint64 // mirrored for the watchdog

	rSched, rLat, rJit, rYield, rWatch, rFault *Rng

	free    bool // free-run mode (C20): no central scheduling
	hasBare bool // some election object has no Metrics: its flag is polled
	// plans with Sched.InLock: who owns which mutex, who waits before which Lock call
	lockOwn      map[any][]lockOwner
	gateWait     map[any][]chan struct{}
	gatedOn      map[uint64]any
	parkedInLock int
	deadlockSeen bool
	ending       bool
	gids         map[uint64]int
	gidInst      map[uint64]int // goroutine -> instance it was last seen working for
	rJitInst     map[int]*Rng
	parked       map[*yieldReq]bool
	nParked      int                  // goroutines parked at a yield site (requested or accepted)
	trackLocks   bool                 // the plan is judged by an oracle that looks at lock order
	lockHeld     map[uint64][]string  // goroutine -> locks held (instrumented copy only)
	lockEdges    map[[2]string]string // (held, acquired) -> call stack of the first observation
	inflight     map[*Op]bool
	apiBusy      []int // per instance: API calls in progress
	apiSeq       int
	ileave       uint64
	stats        Stats
	opTrig       map[[2]int][]*Action // (inst, nth) -> actions
	firedAct     map[*Action]bool
	lastNow      time.Duration
	maxDepth     int
	panicMsg     string

	driverGID    uint64
	endLeaders   []int
	owners       map[string]*groupOwner
	endStep      uint64
	endAt        time.Duration
	lastFaultEnd time.Duration

	skipped        map[string]int
	judged         map[string]int
	leftover       []string
	leftoverAtExit bool
}

// freeInvoke: free-run mode (C20) applies the operation on the calling
// goroutine under the driver lock, with latencies as fake-clock sleeps.
func (d *Driver) freeInvoke(op *Op) opResp {
	d.smu.Lock()
	lat1 := d.rLat.Dur(d.plan.Store.Req[0], d.plan.Store.Req[1])
	lat2 := d.rLat.Dur(d.plan.Store.Resp[0], d.plan.Store.Resp[1])
	d.smu.Unlock()
	time.Sleep(lat1)
	d.smu.Lock()
	now := d.now()
	op.ID = len(d.h.Ops)
	op.TInvoke, op.TApply = now-lat1, now
	op.Applied = true
	d.h.Ops = append(d.h.Ops, op)
	d.stats.Ops++
	var resp opResp
	if d.ending {
		resp = opResp{err: nats.ErrConnectionClosed}
	} else if part, _ := d.partitioned(op.Inst, op.obj, now); part {
		resp = opResp{err: nats.ErrTimeout}
	} else if f := d.opFault(op, now); f != nil && (f.Kind == FError || f.Kind == FDropReq || f.Kind == FHang || f.Kind == FWatchFail) {
		resp = opResp{err: faultErr(f.Err)}
	} else {
		if f != nil && f.Kind == FSlow {
			lat2 += f.Arg // the answer comes, but late (later than the library's own time-outs)
			d.mu.Lock()
			d.fault(FSlow)
			d.mu.Unlock()
		}
		resp = d.execOnStore(op, now)
		if resp.sub != nil {
			// deliveries in free-run mode: pushed directly
		}
	}
	d.smu.Unlock()
	time.Sleep(lat2)
	return resp
}

// RunFree executes the plan without central scheduling (C20, race detector).
func (d *Driver) RunFree() {
	p := d.plan
	acts := make([]*Action, 0, len(p.Actions))
	for i := range p.Actions {
		if p.Actions[i].OpN == 0 {
			acts = append(acts, &p.Actions[i])
		}
	}
	sort.SliceStable(acts, func(i, j int) bool { return acts[i].At < acts[j].At })
	for _, a := range acts {
		if w := a.At - d.now(); w > 0 {
			time.Sleep(w)
		}
		d.doAction(a)
	}
	if w := p.Until - d.now(); w > 0 {
		time.Sleep(w)
	}
	// stop everything
	d.smu.Lock()
	d.mu.Lock()
	d.ending = true
	d.smu.Unlock()
	var objs []*elObj
	for _, in := range d.insts {
		objs = append(objs, in.objs...)
	}
	d.mu.Unlock()
	var wg sync.WaitGroup
	for _, o := range objs {
		wg.Add(1)
		go func(o *elObj) {
			defer wg.Done()
			defer func() { recover() }()
			_ = o.el.Stop()
		}(o)
	}
	wg.Wait()
	d.smu.Lock()
	for _, s := range d.subs {
		s.closeLocked()
	}
	d.smu.Unlock()
	time.Sleep(12 * time.Second)
	d.stats.VirtualNs = int64(d.now())
}

func (d *Driver) now() time.Duration { return time.Since(d.start) }

func (d *Driver) fault(kind string) {
	d.stats.Faults[kind]++
}

func (d *Driver) probe(name string) {
	d.stats.Probes[name]++
}

func (d *Driver) gidOrd(g uint64) int {
	if o, ok := d.gids[g]; ok {
		return o
	}
	o := len(d.gids) + 1
	d.gids[g] = o
	return o
}

// push schedules an event. Caller holds d.mu.
func (d *Driver) push(at time.Duration, kind string, run func()) {
	d.evseq++
	heap.Push(&d.heap, &event{at: at, tie: d.rSched.U64(), seq: d.evseq, kind: kind, run: run})
}

func (d *Driver) signal() {
	select {
	case d.wake <- struct{}{}:
	default:
	}
}

// submit hands a request to the driver (called from library/client goroutines).
func (d *Driver) submit(r *request) {
	d.mu.Lock()
	d.inbox = append(d.inbox, r)
	d.mu.Unlock()
	d.signal()
}

// note runs fn under the driver lock at the next driver step boundary; used by
// observers that only need to append to the history (they do it directly
// under d.mu instead; note is for things that must be ordered by the driver).

func (d *Driver) logf(format string, args ...any) {
	d.h.logf(d.step, d.lastNow, format, args...)
}

// ---------- main loop ----------

// Run executes the plan inside the current synctest bubble.
func (d *Driver) Run() {
	p := d.plan
	d.mu.Lock()
	for i := range p.Actions {
		a := &p.Actions[i]
		if a.OpN > 0 {
			k := [2]int{a.Inst, a.OpN}
			if a.OnInst > 0 {
				k[0] = a.OnInst - 1
			}
			d.opTrig[k] = append(d.opTrig[k], a)
			continue
		}
		d.push(a.At, "action", func() { d.doAction(a) })
	}
	for i := range p.Faults {
		f := &p.Faults[i]
		if f.Kind == FWatchClose {
			f := f
			d.push(f.From, "fault", func() { d.closeWatches(f) })
		}
		if f.To > 0 {
			to := f.To
			d.push(to, "fault-end", func() {
				d.mu.Lock()
				if to > d.lastFaultEnd {
					d.lastFaultEnd = to
				}
				d.mu.Unlock()
			})
		}
	}
	endAt := p.Until + p.Tail
	d.mu.Unlock()

	for {
		synctest.Wait()
		d.mu.Lock()
		d.lastNow = d.now()
		d.sample()
		d.drainInbox()
		now := d.lastNow
		if d.heap.Len() > 0 && d.heap[0].at <= now {
			ev := heap.Pop(&d.heap).(*event)
			d.step++
			d.stepAt.Store(d.step)
			d.mu.Unlock()
			ev.run()
			d.afterStep()
			if d.step > 400000 {
				d.h.violate("SIM", "step-cap", "step cap hit", now, d.step)
				break
			}
			continue
		}
		if now >= endAt {
			d.mu.Unlock()
			break
		}
		wait := endAt - now
		if d.heap.Len() > 0 && d.heap[0].at-now < wait {
			wait = d.heap[0].at - now
		}
		d.mu.Unlock()
		tm := time.NewTimer(wait)
		select {
		case <-d.wake:
			tm.Stop()
		case <-tm.C:
		}
	}
	d.shutdown()
}

// drainInbox turns new requests into scheduled events. Caller holds d.mu.
func (d *Driver) drainInbox() {
	// Canonical order, not arrival order: which of several goroutines woken at one instant
	// reaches its simulator point first can depend on the Go scheduler (sysmon may ask a goroutine
	// to yield when the OS descheduled its thread for >10 ms), and must not leak into the run.
	if len(d.inbox) > 1 {
		sort.SliceStable(d.inbox, func(i, j int) bool { return reqKey(d.inbox[i]) < reqKey(d.inbox[j]) })
	}
	for len(d.inbox) > 0 {
		r := d.inbox[0]
		d.inbox = d.inbox[1:]
		switch r.kind {
		case "op":
			d.acceptOp(r.op)
		case "yield":
			y := r.y
			d.parked[y] = true
			d.stats.Yields++
			y.n = d.stats.Yields
			d.push(d.lastNow+y.d, "yield", func() {
				d.mu.Lock()
				delete(d.parked, y)
				d.nParked--
				if in := d.inst(y.inst); in != nil {
					in.parkedYields--
				}
				d.logf("yield-release i%d g%d %s", y.inst, d.gidOrd(y.gid), y.site)
				d.mu.Unlock()
				close(y.ch)
			})
		}
	}
}

func reqKey(r *request) string {
	switch r.kind {
	case "op":
		o := r.op
		return fmt.Sprintf("a/%03d/%s/%s/%020d/%s/%x", o.Inst+1, o.Kind, o.Key, o.Rev, o.Caller, o.Val)
	case "yield":
		return fmt.Sprintf("b/%03d/%s", r.y.inst+1, r.y.site)
	}
	return "z"
}

// ---------- store operations ----------

// invoke is called by the stub on a library goroutine; blocks until the
// driver returns the operation.
func (d *Driver) invoke(op *Op) opResp {
	op.ch = make(chan opResp, 1)
	op.Caller = leaderFrames(3, 5)
	op.GID = goid()
	if dep := stackDepth(); dep > 400 {
		d.mu.Lock()
		if dep > d.maxDepth {
			d.maxDepth = dep
		}
		d.mu.Unlock()
	}
	if d.free {
		return d.freeInvoke(op)
	}
	d.submit(&request{kind: "op", op: op})
	return <-op.ch
}

func (d *Driver) inWindow(f *Fault, inst int, opKind string, t time.Duration) bool {
	if f.OpN > 0 {
		return false
	}
	if f.Inst >= 0 && f.Inst != inst {
		return false
	}
	if f.Op != "" && f.Op != opKind {
		return false
	}
	if t < f.From {
		return false
	}
	if f.To > 0 && t >= f.To {
		return false
	}
	return true
}

func (d *Driver) partitioned(inst int, o *elObj, t time.Duration) (bool, time.Duration) {
	if o != nil && o.dead {
		return true, 0
	}
	for i := range d.plan.Faults {
		f := &d.plan.Faults[i]
		if f.Kind == FPartition && d.inWindow(f, inst, "", t) {
			return true, f.To
		}
	}
	return false, 0
}

// opFault picks the request-side fault for an op at invoke. Caller holds d.mu.
func (d *Driver) opFault(op *Op, t time.Duration) *Fault {
	for i := range d.plan.Faults {
		f := &d.plan.Faults[i]
		switch f.Kind {
		case FDropReq, FDropResp, FError, FHang, FSlow, FWatchFail:
		default:
			continue
		}
		if f.Kind == FWatchFail && op.Kind != "watch" {
			continue
		}
		if f.OpN > 0 {
			if (f.Inst < 0 || f.Inst == op.Inst) && (f.Op == "" || f.Op == op.Kind) {
				n := op.Nth
				if f.Op != "" {
					n = op.NthKind
				}
				if n == f.OpN {
					return f
				}
			}
			continue
		}
		if d.inWindow(f, op.Inst, op.Kind, t) {
			if f.Prob > 0 && f.Prob < 1 && !d.rFault.Bool(f.Prob) {
				continue
			}
			return f
		}
	}
	return nil
}

func faultErr(name string) error {
	switch name {
	case "timeout", "":
		return nats.ErrTimeout
	case "noresponders":
		return nats.ErrNoResponders
	case "closed":
		return nats.ErrConnectionClosed
	case "deadline":
		return context.DeadlineExceeded
	case "permission":
		return errors.New("nats: permission denied")
	case "bucket":
		return nats.ErrBucketNotFound
	case "disconnected":
		return nats.ErrDisconnected
	}
	return errors.New(name)
}

func (d *Driver) clientTimeout() time.Duration {
	if d.plan.Store.ClientTimeout > 0 {
		return d.plan.Store.ClientTimeout
	}
	return 5 * time.Second
}

// acceptOp: the invoke step. Caller holds d.mu.
func (d *Driver) acceptOp(op *Op) {
	now := d.lastNow
	in := d.inst(op.Inst)
	op.ID = len(d.h.Ops)
	op.TInvoke, op.TApply, op.TRet = now, -1, -1
	d.step++
	op.SInvoke = d.step
	if in != nil {
		in.nOps++
		op.Nth = in.nOps
		in.nKind[op.Kind]++
		op.NthKind = in.nKind[op.Kind]
		if op.obj != nil {
			op.Gen = op.obj.gen
		}
		if in.stopRetStep > 0 && !in.running {
			in.opsAfterStop = append(in.opsAfterStop, op)
		}
		if in.inStopCall > 0 && op.Kind == "delete" {
			op.InStopDelete = true
		}
	}
	d.h.Ops = append(d.h.Ops, op)
	if op.Inst >= 0 {
		d.gidInst[op.GID] = op.Inst
	}
	d.inflight[op] = true
	if in != nil {
		in.inflightOps++
	}
	d.stats.Ops++
	d.ileave = d.ileave*1099511628211 ^ uint64(op.Inst+2)<<8 ^ uint64(len(op.Kind))
	d.logf("invoke #%d i%d g%d %s key=%s rev=%d by=%s", op.ID, op.Inst, d.gidOrd(op.GID), op.Kind, op.Key, op.Rev, op.Caller)

	if d.ending {
		op.Fault = "ending"
		d.finishOp(op, opResp{err: nats.ErrConnectionClosed})
		return
	}
	if part, _ := d.partitioned(op.Inst, op.obj, now); part {
		op.Fault = FPartition
		d.fault("partition_req")
		d.push(now+d.clientTimeout(), "ret", func() { d.returnOp(op, opResp{err: nats.ErrTimeout}) })
		d.fireOpTrig(op, "invoke")
		return
	}
	f := d.opFault(op, now)
	extra := time.Duration(0)
	if f != nil {
		switch f.Kind {
		case FDropReq, FHang:
			op.Fault = f.Kind
			d.fault(f.Kind)
			d.push(now+d.clientTimeout(), "ret", func() { d.returnOp(op, opResp{err: nats.ErrTimeout}) })
			d.fireOpTrig(op, "invoke")
			return
		case FError, FWatchFail:
			op.Fault = f.Kind + ":" + f.Err
			d.fault(f.Kind)
			lat := d.rLat.Dur(d.plan.Store.Req[0], d.plan.Store.Req[1])
			e := faultErr(f.Err)
			d.push(now+lat, "ret", func() { d.returnOp(op, opResp{err: e}) })
			d.fireOpTrig(op, "invoke")
			return
		case FSlow:
			op.Fault = FSlow
			d.fault(FSlow)
			extra = f.Arg
		case FDropResp:
			op.Fault = FDropResp // handled at apply
		}
	}
	lat := d.rLat.Dur(d.plan.Store.Req[0], d.plan.Store.Req[1]) + extra
	d.push(now+lat, "apply", func() { d.applyOp(op) })
	d.fireOpTrig(op, "invoke")
}

func (d *Driver) inst(i int) *Inst {
	if i < 0 || i >= len(d.insts) {
		return nil
	}
	return d.insts[i]
}

// applyOp: the server executes the operation.
func (d *Driver) applyOp(op *Op) {
	d.mu.Lock()
	defer d.mu.Unlock()
	now := d.lastNow
	op.TApply = now
	op.SApply = d.step
	op.Applied = true
	resp := d.execOnStore(op, now)
	op.resp = resp
	op.SrvErr = resp.err
	op.OK = resp.err == nil
	d.logf("apply #%d i%d %s ok=%v rev=%d err=%v", op.ID, op.Inst, op.Kind, op.OK, resp.rev, resp.err)
	d.checkAtApply(op)
	lost := op.Fault == FDropResp
	if part, _ := d.partitioned(op.Inst, op.obj, now); part {
		lost = true
		if op.Fault == "" {
			op.Fault = "partition_resp"
		}
	}
	if lost {
		d.fault("lost_ack")
		if op.Kind == "watch" && resp.sub != nil {
			resp.sub.closeLocked()
		}
		d.push(op.TInvoke+d.clientTimeout(), "ret", func() { d.returnOp(op, opResp{err: nats.ErrTimeout}) })
	} else {
		lat := d.rLat.Dur(d.plan.Store.Resp[0], d.plan.Store.Resp[1])
		d.push(now+lat, "ret", func() { d.returnOp(op, resp) })
	}
	d.fireOpTrig(op, "apply")
}

func (d *Driver) execOnStore(op *Op, now time.Duration) opResp {
	s := d.store
	op.PrevLast = s.Last(op.Key, now)
	op.PrevLive = s.Live(op.Key, now)
	w := writer{inst: op.Inst, gen: op.Gen, op: op.ID}
	switch op.Kind {
	case "create":
		v, err := s.Create(op.Key, op.Val, now, d.step, w)
		if err != nil {
			return opResp{err: err}
		}
		op.New = v
		op.ResRev = v.Seq
		d.onMutation(v)
		return opResp{rev: v.Seq}
	case "update":
		v, err := s.Update(op.Key, op.Val, op.Rev, now, d.step, w)
		if err != nil {
			return opResp{err: err}
		}
		op.New = v
		op.ResRev = v.Seq
		d.onMutation(v)
		return opResp{rev: v.Seq}
	case "get":
		v, err := s.Get(op.Key, now)
		if err != nil {
			return opResp{err: err}
		}
		op.ResRev = v.Seq
		return opResp{entry: v, rev: v.Seq}
	case "delete":
		v := s.Delete(op.Key, now, d.step, w)
		op.New = v
		d.onMutation(v)
		return opResp{rev: v.Seq}
	case "put":
		v := s.Put(op.Key, op.Val, now, d.step, w)
		op.New = v
		d.onMutation(v)
		return opResp{rev: v.Seq}
	case "watch":
		sub := d.newSub(op, now)
		return opResp{sub: sub}
	}
	return opResp{err: fmt.Errorf("unknown op %s", op.Kind)}
}

// returnOp: the response reaches the caller.
func (d *Driver) returnOp(op *Op, resp opResp) {
	d.mu.Lock()
	defer d.mu.Unlock()
	d.finishOp(op, resp)
}

func (d *Driver) finishOp(op *Op, resp opResp) {
	if op.retDone {
		return
	}
	op.retDone = true
	op.TRet = d.lastNow
	op.SRet = d.step
	op.Err = resp.err
	delete(d.inflight, op)
	if in := d.inst(op.Inst); in != nil {
		in.inflightOps--
	}
	d.logf("return #%d i%d %s err=%v", op.ID, op.Inst, op.Kind, resp.err)
	if op.Kind == "watch" && resp.err == nil && op.obj != nil {
		if in := op.obj.in; in.cfg.NoLogger && op.obj == in.cur && !d.ending {
			// no Logger to hear "watch_started" from: the watch is established when the call returns
			in.watchOK = true
			in.watchOKAt = d.lastNow
		}
	}
	if op.obj != nil && resp.err == nil {
		switch op.Kind {
		case "create", "update":
			// an acknowledgement that arrives after the library's own per-operation time-out
			// (max(H/2, 1s) for refreshes) has been given up on by the caller: it does not count
			// as a write "whose response X has received"
			to := d.plan.H / 2
			if to < time.Second {
				to = time.Second
			}
			if op.obj.termRiseStep > op.SInvoke {
				// the acknowledgement of a write of an earlier term, arriving after the object has
				// started a new one: says nothing about the current term's record
			} else if op.Kind == "update" && op.TRet-op.TInvoke >= to {
				op.obj.lateAck = true
			} else {
				op.obj.lastAckRev = op.ResRev
				op.obj.lateAck = false
			}
		}
	}
	op.ch <- resp
	d.fireOpTrig(op, "return")
}

func (d *Driver) fireOpTrig(op *Op, phase string) {
	acts := d.opTrig[[2]int{op.Inst, op.Nth}]
	if op.NthKind != op.Nth {
		acts = append(append([]*Action(nil), acts...), d.opTrig[[2]int{op.Inst, op.NthKind}]...)
	}
	for _, a := range acts {
		if a.Phase != phase || d.firedAct[a] {
			continue
		}
		if a.OpKind == "" && a.OpN != op.Nth || a.OpKind != "" && (a.OpKind != op.Kind || a.OpN != op.NthKind) {
			continue
		}
		d.firedAct[a] = true
		a := a
		d.probe("stop_point_" + phase)
		d.push(d.lastNow+a.Delay, "action", func() { d.doAction(a) })
	}
}

// ---------- shutdown ----------

func (d *Driver) shutdown() {
	// stop every election object, release everything, let goroutines end
	d.mu.Lock()
	d.ending = true
	d.lastNow = d.now()
	d.endStep = d.step + 1
	d.step++
	d.endAt = d.lastNow
	d.logf("end-of-plan")
	for _, in := range d.insts {
		if in.cur != nil && !in.cur.dead && in.running && in.cur.el.IsLeader() {
			d.endLeaders = append(d.endLeaders, in.idx)
		}
	}
	var objs []*elObj
	for _, in := range d.insts {
		objs = append(objs, in.objs...)
	}
	d.mu.Unlock()
	d.finalChecks()
	for _, o := range objs {
		o := o
		go func() {
			defer func() { recover() }()
			_ = o.el.Stop()
		}()
	}
	deadline := d.now() + 30*time.Second
	for d.now() < deadline {
		synctest.Wait()
		d.mu.Lock()
		d.lastNow = d.now()
		d.drainInbox()
		// release everything immediately
		var ops []*Op
		for op := range d.inflight {
			ops = append(ops, op)
		}
		sort.Slice(ops, func(i, j int) bool { return ops[i].ID < ops[j].ID })
		for _, op := range ops {
			if op.Applied && op.resp.sub != nil {
				op.resp.sub.closeLocked()
			}
			d.finishOp(op, opResp{err: nats.ErrConnectionClosed})
		}
		var ys []*yieldReq
		for y := range d.parked {
			ys = append(ys, y)
		}
		sort.Slice(ys, func(i, j int) bool { return ys[i].n < ys[j].n })
		for _, y := range ys {
			delete(d.parked, y)
			d.nParked--
			if in := d.inst(y.inst); in != nil {
				in.parkedYields--
			}
			close(y.ch)
		}
		for _, s := range d.subs {
			s.closeLocked()
		}
		busy := len(d.inbox) > 0
		d.mu.Unlock()
		if !busy {
			select {
			case <-d.wake:
			case <-time.After(2 * time.Second):
			}
		}
	}
	d.stats.VirtualNs = int64(d.now())
	d.stats.Steps = d.step
	d.stats.InterleaveH = d.ileave
}
