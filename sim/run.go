package sim

import (
	"fmt"
	"math/rand/v2"
	"os"
	"runtime"
	"strings"
	"sync"
	"sync/atomic"
	"testing"
	"testing/synctest"
	"time"
	_ "unsafe"

	leader "github.com/ali-assar/NATS-Leader-Election/leader"
	"github.com/google/uuid"
)

// simSelectState is the seed of the overlaid runtime.selectgo poll order
// (see /verif/overlay). 0 = stock behaviour.
//
//go:linkname simSelectState runtime.simSelectState
var simSelectState uint64

// Result of one run.
type Result struct {
	Seed     uint64         `json:"seed"`
	Family   string         `json:"family"`
	LogHash  string         `json:"log_hash"`
	Viol     []Violation    `json:"viol,omitempty"`
	Stats    Stats          `json:"stats"`
	Tail     []string       `json:"tail,omitempty"`
	Plan     *Plan          `json:"plan,omitempty"`
	Skipped  map[string]int `json:"skipped,omitempty"`
	Judged   map[string]int `json:"judged,omitempty"`
	WallUs   int64          `json:"wall_us"`
	Leftover []string       `json:"leftover,omitempty"`
}

// current driver (hooks are process-global)
var curDriver atomic.Pointer[Driver]

// progress counter for the watchdog (outside any bubble)
var progress atomic.Uint64

// prngReader feeds google/uuid. One stream per instance (the goroutine asking is mapped to the
// instance it was last seen working for), so that the tokens an instance gets do not depend on
// which of two instances' goroutines happened to run first at one instant.
type prngReader struct {
	mu   sync.Mutex
	seed uint64
	rs   map[int]*Rng
}

func (p *prngReader) Read(b []byte) (int, error) {
	inst := -1
	if d := curDriver.Load(); d != nil && !d.free {
		g := goid()
		d.mu.Lock()
		if i, ok := d.gidInst[g]; ok {
			inst = i
		}
		d.mu.Unlock()
	}
	p.mu.Lock()
	defer p.mu.Unlock()
	r := p.rs[inst]
	if r == nil {
		r = NewRng(p.seed, fmt.Sprintf("uuid/%d", inst))
		p.rs[inst] = r
	}
	for i := range b {
		b[i] = byte(r.U64())
	}
	return len(b), nil
}

func installHooks() {
	rand.SimUint64 = func() uint64 {
		d := curDriver.Load()
		if d == nil {
			return 0x8000000000000000
		}
		return d.jitterDraw()
	}
	leader.VerifHeld = func(delta int) {
		if inSample.Load() {
			return
		}
		d := curDriver.Load()
		if d == nil || d.free {
			return
		}
		if delta < 0 && d.hasBare {
			// objects without Metrics: look at their leadership flag while the releasing goroutine is
			// still inside its critical section
			d.pollClaims(polledStack(leaderFrames(2, 9)))
		}
		g := goid()
		heldMu.Lock()
		held[g] += delta
		if held[g] <= 0 {
			delete(held, g)
		}
		heldMu.Unlock()
	}
	leader.VerifLockObj = func(kind byte, mu any) {
		if inSample.Load() {
			return
		}
		d := curDriver.Load()
		if d == nil || d.free || d.plan.Sched.InLock <= 0 {
			return
		}
		d.lockObj(kind, mu)
	}
	leader.VerifYield = func(instanceID, site string) {
		if inSample.Load() {
			return
		}
		d := curDriver.Load()
		if d == nil {
			return
		}
		d.yield(instanceID, site)
	}
}

// polledStack: the call stack of a lock release at which a flag change was seen, reduced to the
// function that made the change and its callers (the hook's own frame, the deferred closure of the
// releasing function and nested releases of the disconnect handler's mutex are dropped), so that
// it reads like the stacks the metrics observer records.
func polledStack(s string) string {
	fr := strings.Split(s, "<")
	var out []string
	for i, f := range fr {
		switch f {
		case "verifHeld", "verifPreLock", "verifYield", "verifLockObj":
			continue
		case "logCtx", "IsLeader", "Token", "LeaderID", "getMetricsLabels", "recordLeaderDuration", "recordTransition", "updateIsLeaderMetric":
			// accessors and metric helpers in which a yield in front of an atomic operation sits
			if len(out) == 0 {
				continue
			}
		}
		if len(out) == 0 && strings.HasPrefix(f, "dh.stop") {
			continue
		}
		if i+1 < len(fr) && strings.HasPrefix(f, fr[i+1]+".func") && len(out) == 0 {
			continue
		}
		out = append(out, f)
		if len(out) == 4 {
			break
		}
	}
	return strings.Join(out, "<")
}

func (d *Driver) jitterDraw() uint64 {
	caller := leaderFrames(4, 2)
	g := goid()
	d.mu.Lock()
	defer d.mu.Unlock()
	rj := d.rJit
	if i, ok := d.gidInst[g]; ok {
		if d.rJitInst == nil {
			d.rJitInst = map[int]*Rng{}
		}
		if d.rJitInst[i] == nil {
			d.rJitInst[i] = NewRng(d.plan.Seed, fmt.Sprintf("jitter/%d", i))
		}
		rj = d.rJitInst[i]
	}
	u := rj.U64()
	f := float64(u<<11>>11) / (1 << 53)
	d.h.Jitters = append(d.h.Jitters, &JitterEvt{T: d.now(), Step: d.step, U: u, F: f, GID: g, Caller: caller})
	return u
}

// lock-held tracking (fed by the instrumented copy's verifHeld calls): a goroutine that holds a
// library mutex is never parked - others would block on that mutex, which synctest does not
// count as durably blocked, and the run would hang.
var (
	heldMu   sync.Mutex
	held     = map[uint64]int{}
	inSample atomic.Bool // the driver itself is calling into the library (Status() etc.)
)

func holdsLock(g uint64) bool {
	heldMu.Lock()
	defer heldMu.Unlock()
	return held[g] > 0
}

var noLockOrder = os.Getenv("VERIF_NOLOCKORDER") != ""

// lockEvent: "@L:<lock>" / "@R:<lock>" (about to acquire) and "@U:<lock>" (about to release),
// emitted by the instrumented copy. The driver keeps, per goroutine, the locks it holds and, per
// run, the order in which locks were nested: holding A while acquiring B is the edge A->B. A cycle
// in that relation is a potential deadlock whatever the schedule of this run was.
func (d *Driver) lockEvent(site string) {
	g := goid()
	kind, id := site[1], site[3:]
	d.mu.Lock()
	defer d.mu.Unlock()
	if d.lockHeld == nil {
		d.lockHeld = map[uint64][]string{}
		d.lockEdges = map[[2]string]string{}
	}
	h := d.lockHeld[g]
	if kind == 'U' {
		for i := len(h) - 1; i >= 0; i-- {
			if h[i] == id {
				h = append(h[:i], h[i+1:]...)
				break
			}
		}
		if len(h) == 0 {
			delete(d.lockHeld, g)
		} else {
			d.lockHeld[g] = h
		}
		return
	}
	for _, a := range h {
		k := [2]string{a, id}
		if a == id {
			if kind == 'R' {
				d.probe("recursive_read_lock")
			}
			continue
		}
		if _, ok := d.lockEdges[k]; !ok {
			d.lockEdges[k] = leaderFrames(3, 4)
		}
	}
	d.lockHeld[g] = append(h, id)
}

// lockObj: identity of the mutex a goroutine is about to acquire / has acquired / has released
// (plans with Sched.InLock only). Exactly one library goroutine runs at a time, so a mutex that is
// owned by another goroutine when this one asks for it belongs to a goroutine that is parked inside
// its critical section (or held back behind one): this goroutine waits here, durably blocked,
// instead of inside sync.Mutex.Lock, which synctest does not count as blocked.
type lockOwner struct {
	g uint64
	w bool
}

func (d *Driver) lockObj(kind byte, mu any) {
	g := goid()
	switch kind {
	case 'l', 'r':
		for {
			d.mu.Lock()
			var holder uint64
			for _, o := range d.lockOwn[mu] {
				if o.g != g && (kind == 'l' || o.w) {
					holder = o.g
				}
			}
			if holder == 0 || d.ending {
				delete(d.gatedOn, g)
				d.mu.Unlock()
				return
			}
			// a cycle of goroutines each waiting for a mutex the next one holds is a deadlock
			d.gatedOn[g] = mu
			seen := map[uint64]bool{g: true}
			for h := holder; ; {
				if seen[h] {
					if !d.deadlockSeen {
						d.deadlockSeen = true
						for _, id := range []string{"C09", "C11", "C13"} {
							if d.plan.judges(id) {
								d.h.violate(id, "deadlock-executed/"+leaderFrames(3, 4), fmt.Sprintf("goroutines wait for each other's mutexes (cycle through g%d)", d.gidOrd(h)), d.now(), d.step)
							}
						}
					}
					break
				}
				seen[h] = true
				m2, ok := d.gatedOn[h]
				if !ok {
					break
				}
				next := uint64(0)
				for _, o := range d.lockOwn[m2] {
					if o.g != h {
						next = o.g
					}
				}
				if next == 0 {
					break
				}
				h = next
			}
			ch := make(chan struct{})
			d.gateWait[mu] = append(d.gateWait[mu], ch)
			d.probe("held_back_before_lock")
			d.mu.Unlock()
			<-ch
		}
	case 'L', 'R':
		d.mu.Lock()
		d.lockOwn[mu] = append(d.lockOwn[mu], lockOwner{g: g, w: kind == 'L'})
		d.mu.Unlock()
	case 'U':
		d.mu.Lock()
		os := d.lockOwn[mu]
		for i := len(os) - 1; i >= 0; i-- {
			if os[i].g == g {
				os = append(os[:i], os[i+1:]...)
				break
			}
		}
		if len(os) == 0 {
			delete(d.lockOwn, mu)
		} else {
			d.lockOwn[mu] = os
		}
		for _, ch := range d.gateWait[mu] {
			close(ch)
		}
		delete(d.gateWait, mu)
		d.mu.Unlock()
	}
}

func (d *Driver) yield(instanceID, site string) {
	if d.free {
		if d.plan.Sched.YieldProb > 0 && !strings.HasPrefix(site, "@") {
			runtime.Gosched()
		}
		return
	}
	if strings.HasPrefix(site, "@") {
		if !noLockOrder && d.trackLocks {
			d.lockEvent(site)
		}
		return
	}
	if strings.HasSuffix(site, "@a") {
		// yields in front of atomic operations: only in plans that explore critical sections
		if d.plan.Sched.InLock <= 0 || inObserver.Load() > 0 {
			return
		}
		// the harness itself reads IsLeader()/Token() under its own lock (one library goroutine runs
		// at a time: if the lock is taken, it is this goroutine's harness code that holds it)
		if !d.mu.TryLock() {
			return
		}
		d.mu.Unlock()
	}
	if site == "callbackTurn:unlocked" {
		// between the library's last ordering action for a callback and the first instruction of
		// the callback itself no implementation can prevent a preemption; the order of callback
		// entries is observed as the library issues the calls
		return
	}
	if site == "handleGracePeriodExpired" && instanceID == "" {
		// The grace-expiry handler is about to take its mutex and read which notification its
		// timer belongs to: observation for C11, recorded when the goroutine actually proceeds
		// (after a park, if any; the driver runs nothing else until it blocks again).
		defer func() {
			d.mu.Lock()
			d.h.Expiries = append(d.h.Expiries, ExpiryEvt{T: d.now(), Step: d.step, Ord: d.h.nextOrd()})
			d.mu.Unlock()
		}()
	}
	if site == "acquire.attempt" {
		// observation point only: when an acquisition attempt starts (C17)
		g := goid()
		d.mu.Lock()
		d.h.Attempts = append(d.h.Attempts, &AttemptEvt{GID: g, T: d.now(), Step: d.step})
		d.mu.Unlock()
		// (also an ordinary yield site: falls through)
	}
	d.mu.Lock()
	if instanceID != "" {
		// a goroutine that passes one of the library's own yield sites works for that instance,
		// whether it is parked here or not (its later parks at lock sites are accounted to it)
		g := goid()
		if i, ok := d.gidInst[g]; !ok || d.insts[i].cfg.ID != instanceID {
			for _, in := range d.insts {
				if in.cfg.ID == instanceID {
					d.gidInst[g] = in.idx
					break
				}
			}
		}
	}
	if d.ending || d.plan.Sched.YieldProb <= 0 || !d.rYield.Bool(d.plan.Sched.YieldProb) {
		d.mu.Unlock()
		return
	}
	var st time.Duration
	stallHere := d.plan.Sched.StallMax > 0
	if stallHere && len(d.plan.Sched.StallSites) > 0 {
		stallHere = false
		for _, x := range d.plan.Sched.StallSites {
			if x == site || strings.HasPrefix(x, "*") && strings.HasSuffix(site, x[1:]) {
				stallHere = true
			}
		}
	} else if stallHere {
		stallHere = d.rYield.Bool(0.5)
	}
	if stallHere {
		st = d.rYield.Dur(0, d.plan.Sched.StallMax)
		if u := d.plan.Sched.StallUntil; u > 0 && d.now() >= u {
			st = 0
		}
		if f := d.plan.Sched.StallFrom; f > 0 && d.now() < f {
			st = 0
		}
	}
	g := goid()
	inLock := false
	if g == d.driverGID {
		d.mu.Unlock()
		return
	}
	if holdsLock(g) {
		// parked inside its critical section only in plans that ask for it, and without a stall
		if d.plan.Sched.InLock <= 0 || !d.rYield.Bool(d.plan.Sched.InLock) {
			d.mu.Unlock()
			return
		}
		inLock, st = true, 0
		d.probe("parked_inside_critical_section")
		// lock-free readers see the flag as it is now: record a change before anybody else runs
		if d.hasBare {
			d.pollClaimsLocked("parked:" + polledStack(leaderFrames(3, 9)))
		}
		d.probe("inlock:" + site)
	}
	y := &yieldReq{site: site, d: st, ch: make(chan struct{}), gid: g, inst: -1, inLock: inLock}
	if inLock {
		d.parkedInLock++
	}
	if instanceID == "" {
		// pre-lock site: the instance is the one this goroutine was last seen working for
		if i, ok := d.gidInst[g]; ok {
			y.inst = i
			d.insts[i].parkedYields++
		} else if !d.plan.Sched.StallUnknown {
			y.d = 0 // unknown goroutine: pure reordering, never a stall (stalls are accounted per instance)
		}
	}
	if instanceID != "" {
		// (two election objects may share one InstanceID - a replacement started while the old
		// process is still alive: the goroutine's own attribution decides between them)
		match := -1
		if i, ok := d.gidInst[g]; ok && d.insts[i].cfg.ID == instanceID {
			match = i
		} else {
			for _, in := range d.insts {
				if in.cfg.ID == instanceID {
					match = in.idx
					break
				}
			}
		}
		if match >= 0 {
			y.inst = match
			d.insts[match].parkedYields++
			d.gidInst[g] = match
		}
	}
	d.h.Stalls = append(d.h.Stalls, StallEvt{T: d.now(), Site: site, D: y.d, GID: y.gid, Inst: y.inst})
	d.nParked++
	d.inbox = append(d.inbox, &request{kind: "yield", y: y})
	d.mu.Unlock()
	d.signal()
	<-y.ch
}

func newDriver(p *Plan, keepLog bool) *Driver {
	d := &Driver{
		trackLocks: p.judges("C09") || p.judges("C11") || p.judges("C13"),
		plan:       p,
		h:          &Hist{keepAll: keepLog},
		wake:       make(chan struct{}, 1),
		gids:       map[uint64]int{},
		gidInst:    map[uint64]int{},
		parked:     map[*yieldReq]bool{},
		lockOwn:    map[any][]lockOwner{},
		gateWait:   map[any][]chan struct{}{},
		gatedOn:    map[uint64]any{},
		inflight:   map[*Op]bool{},
		opTrig:     map[[2]int][]*Action{},
		firedAct:   map[*Action]bool{},
	}
	d.stats.Faults = map[string]int{}
	d.stats.Probes = map[string]int{}
	d.rSched = NewRng(p.Seed, "sched")
	d.rLat = NewRng(p.Seed, "lat")
	d.rJit = NewRng(p.Seed, "jitter")
	d.rYield = NewRng(p.Seed, "yield")
	d.rWatch = NewRng(p.Seed, "watch")
	d.rFault = NewRng(p.Seed, "fault")
	if p.Bucket == "" {
		p.Bucket = "leaders"
	}
	d.store = NewStore(p.TTL, p.Store.Dialect)
	for i, c := range p.Insts {
		if p.Sched.InLock > 0 && !p.Sched.Free {
			// with goroutines parked inside critical sections a Metrics observer would report a flag
			// change only where the library calls it - possibly after the park, when lock-free readers
			// have long seen it: the flag is polled (whatever the plan says; the minimiser may have
			// dropped the option)
			c.NoMetrics = true
		}
		d.insts = append(d.insts, &Inst{d: d, idx: i, cfg: c, nKind: map[string]int{}})
		if c.NoMetrics && !p.Sched.Free {
			d.hasBare = true
		}
	}
	return d
}

// RunPlan executes one plan in a fresh synctest bubble.
func RunPlan(t *testing.T, p *Plan, keepLog bool) (res *Result) {
	t0 := time.Now()
	var d *Driver
	res = &Result{Seed: p.Seed, Family: p.Family}
	uuid.SetRand(&prngReader{seed: p.Seed, rs: map[int]*Rng{}})
	if !p.Sched.Free {
		// (free-run mode keeps the stock scheduler: natural select order and time slicing)
		simSelectState = NewRng(p.Seed, "select").U64() | 1
	}
	func() {
		defer func() {
			if r := recover(); r != nil {
				msg := fmt.Sprint(r)
				if strings.Contains(msg, "deadlock: main bubble goroutine has exited but blocked goroutines remain") {
					d.leftoverAtExit = true
					return
				}
				panic(r)
			}
		}()
		synctest.Test(t, func(t *testing.T) {
			d = newDriver(p, keepLog) // everything the bubble blocks on is created inside it
			d.free = p.Sched.Free
			curDriver.Store(d)
			d.start = time.Now()
			d.driverGID = goid()
			heldMu.Lock()
			held = map[uint64]int{}
			heldMu.Unlock()
			if d.free {
				d.RunFree()
				return
			}
			d.Run()
			d.collectLeftover()
		})
	}()
	curDriver.Store(nil)
	simSelectState = 0
	uuid.SetRand(nil)
	progress.Add(1)

	if !p.Sched.Free {
		d.judge()
	}
	res.LogHash = fmt.Sprintf("%016x", d.h.hash)
	res.Viol = d.h.Viol
	res.Stats = d.stats
	res.Skipped = d.skipped
	res.Judged = d.judged
	res.Leftover = d.leftover
	if len(res.Viol) > 0 || keepLog {
		res.Tail = d.h.Tail(200)
		if keepLog {
			res.Tail = d.h.lines
		}
	}
	res.WallUs = time.Since(t0).Microseconds()
	return res
}

// collectLeftover lists goroutines of this bubble with library frames that are
// still alive at the drain point (end of run, everything released).
func (d *Driver) collectLeftover() {
	buf := make([]byte, 4<<20)
	n := runtime.Stack(buf, true)
	gs := strings.Split(string(buf[:n]), "\n\n")
	if len(gs) == 0 {
		return
	}
	// the first goroutine printed is the current one (the driver): take its bubble tag
	bubble := ""
	if i := strings.Index(gs[0], "synctest bubble "); i >= 0 {
		rest := gs[0][i:]
		if j := strings.IndexAny(rest, "]:,"); j > 0 {
			bubble = rest[:j]
		}
	}
	if bubble == "" {
		return
	}
	for _, g := range gs[1:] {
		hdr := g
		if i := strings.IndexByte(g, '\n'); i > 0 {
			hdr = g[:i]
		}
		if !strings.Contains(hdr, bubble+"]") && !strings.Contains(hdr, bubble+",") {
			continue
		}
		for _, ln := range strings.Split(g, "\n") {
			if strings.HasPrefix(ln, leaderPkg) {
				first := strings.TrimPrefix(ln, leaderPkg)
				if i := strings.LastIndexByte(first, '('); i > 0 {
					first = first[:i]
				}
				d.leftover = append(d.leftover, first)
				break
			}
		}
	}
}
