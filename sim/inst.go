package sim

import (
	"bytes"
	"context"
	"fmt"
	"strings"
	"sync/atomic"
	"time"

	leader "github.com/ali-assar/NATS-Leader-Election/leader"
	"github.com/nats-io/nats.go"
	"github.com/prometheus/client_golang/prometheus"
	"go.uber.org/zap"
)

var freeCb atomic.Int64

// inObserver: a harness observer (metrics, callbacks) is reading the library's state on a library
// goroutine; those reads are not the application's and are no yield sites.
var inObserver atomic.Int32

// elObj is one election object (an Inst may create several: restart).
type elObj struct {
	in                *Inst
	gen               int
	el                leader.Election
	conn              *nats.Conn
	cancelStart       context.CancelFunc
	started           bool
	dead              bool // crashed/abandoned: claims no longer count
	gauge             float64
	gaugeSet          bool
	lastTo            string
	afterStart        bool
	nTrans            int  // transitions recorded by this object
	startInFlight     int  // Start calls of this object that have not returned yet
	stopsDuringStart  int  // stop calls invoked while a Start was in flight that have not turned out to be no-ops
	startOKPending    bool // a Start succeeded but overlapping stop calls are still undecided
	terms             int
	demoteReg         bool   // OnDemote is registered
	demoteRegStep     uint64 // ... since this driver step (0 = before Start)
	unheardFalls      int    // falling edges before OnDemote was registered (no callback due)
	heardFalls        int    // falling edges with OnDemote registered, plus earlier ones whose callback ran after all
	promotes, demotes int
	failedStop        bool // a StopWithContext of this object returned an error (no OnDemote promised)
	healthTick        int
	lastAckRev        uint64
	termRiseStep      uint64 // driver step of the latest rising edge
	inDemote          int
	termToken         string
	lateAck           bool
	polledClaim       bool // objects without Metrics: the flag as last polled
	riseSeenInLock    *ClaimEvt
	startCtxCancelled bool // the application cancelled the Start context during the current term
	candDuringStart   bool // a transition out of CANDIDATE was recorded while a Start call was in flight
}

// Inst is one participant (InstanceID) of the plan.
type Inst struct {
	d    *Driver
	idx  int
	cfg  InstCfg
	objs []*elObj
	cur  *elObj
	gen  int

	running        bool // Start returned ok and no stop invoked since
	crashed        bool
	inStopCall     int
	stopRetStep    uint64
	stopRetAt      time.Duration
	stopOK         bool
	opsAfterStop   []*Op
	nOps           int
	nKind          map[string]int
	healthPos      int
	startedAt      time.Duration
	startInvAt     time.Duration // invocation of the latest Start call
	watchOK        bool
	stopInvoked    int // stop calls invoked so far
	nStarted       int // Start calls that succeeded so far
	parkedYields   int
	inflightOps    int
	apiBusy        int
	watchOKAt      time.Duration
	fellAt         time.Duration // latest falling edge of the claim
	lastStaleEvtAt time.Duration // latest delivery of a notification older than the key's latest message
}

func (in *Inst) key() string { return in.cfg.Group }

func (d *Driver) newObj(in *Inst) (*elObj, error) {
	p := d.plan
	o := &elObj{in: in, gen: in.gen + 1}
	in.gen++
	prov := &simProvider{d: d, inst: in.idx, js: &simJS{d: d, inst: in.idx, obj: o}}
	var jp leader.JetStreamProvider = prov
	if in.cfg.Monitor {
		o.conn = &nats.Conn{}
		prov.conn = o.conn
		jp = &simProviderMon{prov}
	}
	cfg := leader.ElectionConfig{
		Bucket:                 p.Bucket,
		Group:                  in.cfg.Group,
		InstanceID:             in.cfg.ID,
		TTL:                    p.TTL,
		HeartbeatInterval:      p.H,
		ValidationInterval:     in.cfg.V,
		DisconnectGracePeriod:  in.cfg.Grace,
		Priority:               in.cfg.Prio,
		AllowPriorityTakeover:  in.cfg.Takeover,
		MaxConsecutiveFailures: in.cfg.MaxHealth,
	}
	if !d.free {
		// observers take the harness lock; in free-run mode (race detector) they would add
		// happens-before edges between library goroutines that real programs do not have
		// (optional fields left nil are a configuration of their own: the flag is then polled)
		if !in.cfg.NoMetrics {
			cfg.Metrics = &obsMetrics{o: o}
		}
		if !in.cfg.NoLogger {
			cfg.Logger = &obsLogger{o: o}
		}
	}
	if in.cfg.HasHealth {
		cfg.HealthChecker = &scriptHealth{o: o}
	}
	el, err := leader.NewElection(jp, cfg)
	if err != nil {
		return nil, err
	}
	o.el = el
	if d.free {
		el.OnPromote(func(ctx context.Context, token string) { freeCb.Add(1) })
		el.OnDemote(func() { freeCb.Add(1) })
	} else if !in.cfg.NoCallbacks {
		el.OnPromote(func(ctx context.Context, token string) { o.onPromote(ctx, token) })
		switch after := in.cfg.OnDemoteAfter; {
		case after == 0 || after > 0 && d.now() >= after:
			el.OnDemote(func() { o.onDemote() })
			o.demoteReg = true
		case after > 0:
			// registered late, by the application, while the election is running
			d.push(after, "action", func() {
				if o.dead {
					return
				}
				o.el.OnDemote(func() { o.onDemote() })
				d.mu.Lock()
				o.demoteReg, o.demoteRegStep = true, d.step
				d.logf("register OnDemote i%d.%d", in.idx, o.gen)
				d.mu.Unlock()
			})
		}
	}
	in.objs = append(in.objs, o)
	in.cur = o
	return o, nil
}

// ---- observers ----

type obsMetrics struct{ o *elObj }

func (m *obsMetrics) SetIsLeader(v float64, _ prometheus.Labels) {
	o := m.o
	d := o.in.d
	stack := leaderFrames(2, 4)
	inObserver.Add(1) // (the observer's own reads are no preemption points)
	isL := o.el.IsLeader()
	tok := o.el.Token()
	inObserver.Add(-1)
	d.mu.Lock()
	defer d.mu.Unlock()
	d.claimObserved(o, v == 1, isL, tok, stack, false)
}

// claimObserved records one observation of an election object's leadership flag: by the metrics
// observer (inside the library's critical section, at every SetIsLeader call), or - for objects
// configured without Metrics - by polling IsLeader() before every lock release of the
// instrumented copy and at every quiescent point (polled = true; only changes are recorded then).
// Caller holds d.mu.
func (d *Driver) claimObserved(o *elObj, val, isL bool, tok, stack string, polled bool) {
	now := d.now()
	prev := o.gaugeSet && o.gauge == 1
	if polled {
		prev = o.polledClaim
		o.polledClaim = val
	} else {
		o.gauge, o.gaugeSet = 0, true
		if val {
			o.gauge = 1
		}
	}
	ev := &ClaimEvt{Ord: d.h.nextOrd(), Inst: o.in.idx, Gen: o.gen, Val: val, Edge: val != prev, T: now, Step: d.step, Stack: stack, Token: tok}
	if val != isL {
		d.h.violate("C18", "gauge-differs-from-flag-in-critical-section/"+stack, fmt.Sprintf("SetIsLeader(%v) while IsLeader()=%v", val, isL), now, d.step)
	}
	if ev.Edge && !o.dead {
		ev.Live = d.store.Live(o.in.key(), now)
		for _, other := range d.insts {
			if other.cfg.Group != o.in.cfg.Group {
				continue
			}
			for _, oo := range other.objs {
				if !oo.dead && oo.el.IsLeader() {
					ev.Leaders = append(ev.Leaders, other.idx)
				}
			}
		}
		if !val {
			o.in.fellAt = now
			if !o.demoteReg {
				o.unheardFalls++
			} else {
				o.heardFalls++
			}
		}
		if val {
			o.startCtxCancelled = false
			o.termToken = tok
			o.termRiseStep = d.step
			o.terms++
			d.stats.Terms++
			if !o.in.running {
				ev.AfterStopRet = o.in.stopRetStep > 0 && o.in.inStopCall == 0
			}
		}
		d.logf("claim i%d.%d %v by=%s leaders=%v at=%d", o.in.idx, o.gen, val, stack, ev.Leaders, int64(now))
		d.onClaimEdge(o, ev)
	}
	d.h.Claims = append(d.h.Claims, ev)
}

// pollClaims: objects that were given no Metrics have their flag polled. Called from the
// instrumented copy's lock-release hook (on the releasing goroutine, still inside its critical
// section) and by the driver at quiescent points.
func (d *Driver) pollClaims(stack string) {
	if !d.hasBare {
		return
	}
	d.mu.Lock()
	defer d.mu.Unlock()
	d.pollClaimsLocked(stack)
}

func (d *Driver) pollClaimsLocked(stack string) {
	for _, in := range d.insts {
		for _, o := range in.objs {
			if o.el == nil || !in.cfg.NoMetrics {
				continue
			}
			if o.riseSeenInLock != nil && !strings.HasPrefix(stack, "parked:") {
				// the rising edge was seen while its goroutine was parked inside the critical section
				// that sets the flag first and the token after it: the term's token is what stands
				// when that section is left
				if tok := o.el.Token(); o.el.IsLeader() {
					o.riseSeenInLock.Token, o.termToken = tok, tok
				}
				o.riseSeenInLock = nil
			}
			isL := o.el.IsLeader()
			if isL == o.polledClaim {
				continue
			}
			d.probe("polled_claim_edge")
			d.claimObserved(o, isL, isL, o.el.Token(), strings.TrimPrefix(stack, "parked:"), true)
			if isL && strings.HasPrefix(stack, "parked:") && len(d.h.Claims) > 0 {
				o.riseSeenInLock = d.h.Claims[len(d.h.Claims)-1]
			}
		}
	}
}

func (m *obsMetrics) SetConnectionStatus(float64, prometheus.Labels) {}
func (m *obsMetrics) IncTransitions(l prometheus.Labels) {
	o := m.o
	d := o.in.d
	d.mu.Lock()
	defer d.mu.Unlock()
	from, to := l["from_state"], l["to_state"]
	d.h.Trans = append(d.h.Trans, &TransEvt{Inst: o.in.idx, Gen: o.gen, From: from, To: to, T: d.now(), Step: d.step})
	d.logf("trans i%d.%d %s->%s", o.in.idx, o.gen, from, to)
	d.checkTransition(o, from, to)
	o.lastTo = to
	o.nTrans++
	if from == "CANDIDATE" {
		// the first transition of the run that a Start began
		o.afterStart = false
		if o.startInFlight > 0 {
			o.candDuringStart = true
		}
	}
}
func (m *obsMetrics) IncFailures(prometheus.Labels)                { m.o.appYield("app.metrics") }
func (m *obsMetrics) IncAcquireAttempts(prometheus.Labels)         { m.o.appYield("app.metrics") }
func (m *obsMetrics) IncTokenValidationFailures(prometheus.Labels) { m.o.appYield("app.metrics") }
func (m *obsMetrics) ObserveHeartbeatDuration(time.Duration, prometheus.Labels) {
	m.o.appYield("app.metrics")
}
func (m *obsMetrics) ObserveLeaderDuration(time.Duration, prometheus.Labels) {
	m.o.appYield("app.metrics")
}

type obsLogger struct{ o *elObj }

func (l *obsLogger) rec(msg string, fields []zap.Field) {
	o := l.o
	d := o.in.d
	extra := ""
	switch msg {
	case "leader_demoted":
		for _, f := range fields {
			if f.Key == "reason" {
				extra = ":" + f.String
			}
		}
	case "state_transition", "attempting_acquire_with_retry", "acquire_retry", "heartbeat_recovered":
		return
	}
	d.mu.Lock()
	d.h.Logs = append(d.h.Logs, &LogEvt{Inst: o.in.idx, Gen: o.gen, Msg: msg + extra, T: d.now(), Step: d.step})
	if msg == "watch_started" && o == o.in.cur {
		o.in.watchOK = true
		o.in.watchOKAt = d.now()
	}
	d.mu.Unlock()
	o.appYield("app.logger")
}

// appYield: the application's plug-ins (Logger, Metrics) take time like any other code: every
// call is a yield site ("app.logger" / "app.metrics"), so a goroutine can be held up inside one -
// outside critical sections in every plan, inside them in the plans that park goroutines there.
func (o *elObj) appYield(site string) {
	d := o.in.d
	if d.free || inObserver.Load() > 0 {
		return
	}
	d.yield(o.in.cfg.ID, site)
}

func (l *obsLogger) Debug(msg string, f ...zap.Field) { l.rec(msg, f) }
func (l *obsLogger) Info(msg string, f ...zap.Field)  { l.rec(msg, f) }
func (l *obsLogger) Warn(msg string, f ...zap.Field)  { l.rec(msg, f) }
func (l *obsLogger) Error(msg string, f ...zap.Field) { l.rec(msg, f) }
func (l *obsLogger) Fatal(msg string, f ...zap.Field) { l.rec(msg, f) }

type scriptHealth struct{ o *elObj }

func (s *scriptHealth) Check(ctx context.Context) bool {
	o := s.o
	in := o.in
	d := in.d
	d.mu.Lock()
	var r byte = 'h'
	if in.healthPos < len(in.cfg.Health) {
		r = in.cfg.Health[in.healthPos]
	} else if in.cfg.HealthRest != "" {
		r = in.cfg.HealthRest[0]
	}
	in.healthPos++
	o.healthTick++
	now := d.now()
	dl := time.Duration(-1)
	if t, ok := ctx.Deadline(); ok {
		dl = t.Sub(d.start) - now
	}
	d.h.Health = append(d.h.Health, &HealthEvt{Ord: d.h.nextOrd(), Inst: in.idx, Gen: o.gen, T: now, Step: d.step, Result: r, Deadline: dl, Tick: o.healthTick})
	d.logf("health i%d.%d %c dl=%d g%d at=%d", in.idx, o.gen, r, int64(dl), d.gidOrd(goid()), int64(now))
	d.mu.Unlock()
	switch r {
	case 'u':
		return false
	case 's': // slow: blocks until its context expires, then reports unhealthy
		<-ctx.Done()
		return false
	case 'S': // slow: blocks until its context expires, then reports healthy all the same
		<-ctx.Done()
		return true
	case 'b', 'B': // ignores its context: blocks for HealthBlock, then reports unhealthy / healthy
		time.Sleep(in.cfg.HealthBlock)
		d.mu.Lock()
		d.logf("health i%d.%d %c answered", in.idx, o.gen, r)
		d.mu.Unlock()
		return r == 'B'
	}
	return true
}

func (o *elObj) onPromote(ctx context.Context, token string) {
	in := o.in
	d := in.d
	inObserver.Add(1)
	isL := o.el.IsLeader()
	inObserver.Add(-1)
	d.mu.Lock()
	o.promotes++
	term := o.promotes
	d.h.Cbs = append(d.h.Cbs, &CbEvt{Ord: d.h.nextOrd(), Inst: in.idx, Gen: o.gen, Kind: "promote_enter", Token: token, Term: term, T: d.now(), Step: d.step, IsLeader: isL})
	d.logf("cb i%d.%d promote_enter term=%d tok=%s", in.idx, o.gen, term, short(token))
	d.mu.Unlock()
	// watcher for the context's Done
	go func() {
		<-ctx.Done()
		d.mu.Lock()
		d.h.Cbs = append(d.h.Cbs, &CbEvt{Ord: d.h.nextOrd(), Inst: in.idx, Gen: o.gen, Kind: "ctx_done", Token: token, Term: term, T: d.now(), Step: d.step, IsLeader: o.el.IsLeader()})
		d.logf("cb i%d.%d ctx_done term=%d", in.idx, o.gen, term)
		d.mu.Unlock()
	}()
	switch in.cfg.PromoteMode {
	case "block":
		<-ctx.Done()
	case "sleep":
		select {
		case <-ctx.Done():
		case <-time.After(in.cfg.PromoteDur):
		}
	}
	d.mu.Lock()
	d.h.Cbs = append(d.h.Cbs, &CbEvt{Ord: d.h.nextOrd(), Inst: in.idx, Gen: o.gen, Kind: "promote_exit", Token: token, Term: term, T: d.now(), Step: d.step})
	d.logf("cb i%d.%d promote_exit term=%d", in.idx, o.gen, term)
	d.mu.Unlock()
}

func (o *elObj) onDemote() {
	in := o.in
	d := in.d
	stack := leaderFrames(2, 3)
	d.mu.Lock()
	o.demotes++
	o.inDemote++
	if o.demotes > o.heardFalls && o.unheardFalls > 0 {
		// OnDemote was registered between the end of the claim and the library's look at the
		// callback field: that loss of leadership was heard after all
		o.unheardFalls--
		o.heardFalls++
	}
	d.h.Cbs = append(d.h.Cbs, &CbEvt{Ord: d.h.nextOrd(), Inst: in.idx, Gen: o.gen, Kind: "demote_enter", Token: stack, Term: o.demotes, T: d.now(), Step: d.step})
	d.logf("cb i%d.%d demote_enter n=%d by=%s", in.idx, o.gen, o.demotes, stack)
	d.mu.Unlock()
	if in.cfg.DemoteDur > 0 {
		time.Sleep(in.cfg.DemoteDur)
	}
	d.mu.Lock()
	o.inDemote--
	d.h.Cbs = append(d.h.Cbs, &CbEvt{Ord: d.h.nextOrd(), Inst: in.idx, Gen: o.gen, Kind: "demote_exit", Term: o.demotes, T: d.now(), Step: d.step})
	d.mu.Unlock()
}

func short(s string) string {
	if len(s) > 8 {
		return s[:8]
	}
	return s
}

// ---- actions ----

func (d *Driver) doAction(a *Action) {
	if d.free {
		// outsider actions touch the store: they use the store lock of free-run mode
		switch a.Kind {
		case AOutPut, AOutDelete, AExpire:
			d.smu.Lock()
			now := d.now()
			switch a.Kind {
			case AOutPut:
				d.store.Put(a.Key, a.Value, now, 0, writer{inst: -1, op: -1})
			case AOutDelete:
				d.store.Delete(a.Key, now, 0, writer{inst: -1, op: -1})
			default:
				d.store.ForceExpire(a.Key, now, 0)
			}
			d.smu.Unlock()
			return
		}
	}
	d.mu.Lock()
	now := d.lastNow
	if d.free {
		now = d.now()
	}
	var in *Inst
	if a.Inst >= 0 && a.Inst < len(d.insts) {
		in = d.insts[a.Inst]
	}
	d.logf("action %s i%d", a.Kind, a.Inst)
	switch a.Kind {
	case AOutPut:
		key := a.Key
		if bytes.Contains(a.Value, []byte("$")) {
			id, tok, self := "nobody", "00000000-0000-4000-8000-00000000ffff", "nobody"
			if lv := d.store.Live(key, now); lv != nil && lv.P.OK {
				id, tok = lv.P.ID, lv.P.Token
			}
			if in != nil {
				self = in.cfg.ID
			}
			v := bytes.ReplaceAll(a.Value, []byte("$ID"), []byte(id))
			v = bytes.ReplaceAll(v, []byte("$TOKEN"), []byte(tok))
			v = bytes.ReplaceAll(v, []byte("$SELF"), []byte(self))
			a = &Action{Kind: a.Kind, Key: a.Key, Value: v, Inst: a.Inst}
		}
		op := &Op{ID: len(d.h.Ops), Inst: -1, Kind: "put", Key: key, Val: a.Value, TInvoke: now, TApply: now, TRet: now, SInvoke: d.step, SApply: d.step, SRet: d.step, Applied: true, OK: true, Caller: "outsider", retDone: true}
		d.h.Ops = append(d.h.Ops, op)
		d.execOnStore(op, now)
		d.fault("outsider_put")
		d.mu.Unlock()
		return
	case AOutDelete:
		op := &Op{ID: len(d.h.Ops), Inst: -1, Kind: "delete", Key: a.Key, TInvoke: now, TApply: now, TRet: now, SInvoke: d.step, SApply: d.step, SRet: d.step, Applied: true, OK: true, Caller: "outsider", retDone: true}
		d.h.Ops = append(d.h.Ops, op)
		d.execOnStore(op, now)
		d.fault("outsider_delete")
		d.mu.Unlock()
		return
	case AExpire:
		d.store.ForceExpire(a.Key, now, d.step)
		d.fault("forced_expiry")
		d.mu.Unlock()
		return
	}
	if in == nil {
		d.mu.Unlock()
		return
	}
	switch a.Kind {
	case ACrash:
		in.crashed = true
		in.running = false
		if in.cur != nil {
			in.cur.dead = true
		}
		d.fault("crash")
		d.mu.Unlock()
		return
	case ADisconnect, AReconnect, AClosed:
		o := in.cur
		d.mu.Unlock()
		if o == nil || o.conn == nil {
			return
		}
		d.notify(o, a.Kind)
		return
	case ARestart, AStart:
		if in.inStopCall > 0 && !d.free && !d.plan.StartDuringStop {
			// Start while a stop call of the same instance has not returned: the properties speak
			// about what holds "after Stop returns ... until a later Start"; a Start that overlaps
			// the stop call makes that window meaningless, so the deterministic families do not
			// issue it (the free-run C20 plans do: Start answers ErrStopInProgress or starts a new run)
			d.probe("start_during_stop_skipped")
			d.mu.Unlock()
			return
		}
		if a.Kind == ARestart || in.cur == nil {
			if in.cur != nil && in.running {
				// restart of a running object = crash of the old one + new object
				if d.free {
					d.smu.Lock()
				}
				in.cur.dead = true
				if d.free {
					d.smu.Unlock()
				}
				d.fault("crash")
			}
			in.crashed = false
			d.mu.Unlock()
			_, err := d.newObj(in)
			if err != nil {
				d.mu.Lock()
				d.h.violate("SIM", "config-rejected", err.Error(), now, d.step)
				d.mu.Unlock()
				return
			}
			d.mu.Lock()
		}
	}
	o := in.cur
	if o == nil {
		d.mu.Unlock()
		return
	}
	d.apiSeq++
	ev := &ApiEvt{ID: d.apiSeq, Inst: in.idx, Gen: o.gen, Kind: a.Kind, Act: a, TInv: now, TRet: -1, SInv: d.step}
	d.h.Apis = append(d.h.Apis, ev)
	in.apiBusy++
	switch a.Kind {
	case AStop, AStopCtx:
		in.inStopCall++
		in.stopInvoked++
		in.running = false
		ev.startsAtInv = in.nStarted
		if o.startInFlight > 0 {
			ev.duringStart = true
			o.stopsDuringStart++
		}
		ev.WasLeaderAtInv = o.el.IsLeader()
		if !d.free {
			if lv := d.store.Live(in.cfg.Group, now); lv != nil && lv.Writer == in.idx && lv.Gen == o.gen {
				ev.OwnerAtInv = true
			}
		}
	case AValidate, AValidateOD:
		ev.LeaderAtInv = o.el.IsLeader()
		ev.TokenAtInv = o.el.Token()
	}
	d.mu.Unlock()
	go d.apiCall(in, o, a, ev)
}

func (d *Driver) apiCall(in *Inst, o *elObj, a *Action, ev *ApiEvt) {
	defer func() {
		if r := recover(); r != nil {
			d.mu.Lock()
			ev.Panic = fmt.Sprint(r)
			ev.TRet = d.now()
			in.apiBusy--
			d.h.violate("C09", "panic-in-api/"+a.Kind, fmt.Sprintf("%v: %v", a.Kind, r), d.now(), d.step)
			d.mu.Unlock()
			d.signal()
		}
	}()
	// the caller's goroutine works for this instance (stalls at pre-lock sites are accounted to it)
	d.mu.Lock()
	d.gidInst[goid()] = in.idx
	d.mu.Unlock()
	var err error
	var b bool
	switch a.Kind {
	case AStart, ARestart:
		ctx := context.Background()
		var cancel context.CancelFunc
		ctx, cancel = context.WithCancel(ctx)
		// Start moves the state to CANDIDATE without recording a transition; the run's first
		// recorded transition may come before Start has returned to its caller
		d.mu.Lock()
		transBefore := o.nTrans
		_ = transBefore
		o.candDuringStart = false
		in.startInvAt = d.now()
		if o.startInFlight == 0 {
			o.stopsDuringStart, o.startOKPending = 0, false
		}
		o.startInFlight++
		d.mu.Unlock()
		if in.cfg.CorrID {
			ctx = context.WithValue(ctx, "correlation_id", fmt.Sprintf("run-%s-%d", in.cfg.ID, o.gen)) //nolint: the library documents a plain string key
		}
		err = o.el.Start(ctx)
		d.mu.Lock()
		o.startInFlight--
		if err == nil && !o.candDuringStart {
			// the run's first transition is still to come (transitions recorded meanwhile by
			// goroutines of the previous run do not count)
			o.afterStart = true
		}
		if err == nil {
			o.cancelStart = cancel
			o.started = true
			in.startedAt = d.now()
			in.nStarted++
			if o.stopsDuringStart == 0 {
				// (a stop call invoked while Start had not yet returned to its caller comes after
				// this start: the instance is stopping or stopped, not running - unless that call
				// got in first and answers "already stopped", see below)
				in.running = true
				in.stopRetStep = 0
				in.opsAfterStop = nil
				in.watchOK = false
			} else {
				o.startOKPending = true
			}
		}
		d.mu.Unlock()
	case AStop:
		err = o.el.Stop()
	case AStopCtx:
		ctx := context.Background()
		var cancel context.CancelFunc = func() {}
		if a.CtxTimeout > 0 {
			ctx, cancel = context.WithTimeout(ctx, a.CtxTimeout)
		} else if a.CtxCancelAt > 0 {
			ctx, cancel = context.WithCancel(ctx)
			c := cancel
			time.AfterFunc(a.CtxCancelAt, c)
		}
		err = o.el.StopWithContext(ctx, leader.StopOptions{DeleteKey: a.DeleteKey, WaitForDemote: a.WaitForDemote, Timeout: a.Timeout})
		cancel()
	case AValidate, AValidateOD:
		ctx := context.Background()
		var cancel context.CancelFunc = func() {}
		if a.CtxCancelled {
			ctx, cancel = context.WithCancel(ctx)
			cancel()
			ev.CtxDoneAtInv = true
		} else if a.CtxTimeout > 0 {
			ctx, cancel = context.WithTimeout(ctx, a.CtxTimeout)
		}
		if a.Kind == AValidate {
			b, err = o.el.ValidateToken(ctx)
		} else {
			b = o.el.ValidateTokenOrDemote(ctx)
		}
		cancel()
	case ACancelStart:
		if o.cancelStart != nil {
			d.mu.Lock()
			o.startCtxCancelled = true
			d.mu.Unlock()
			o.cancelStart()
		}
		// the instance's background activity ends: it is no longer a running candidate
		d.mu.Lock()
		in.running = false
		in.watchOK = false
		d.mu.Unlock()
	case AStatus:
		d.checkSnapshot(in, o, o.el.Status())
	case AReadAPI:
		_ = o.el.IsLeader()
		_ = o.el.LeaderID()
		_ = o.el.Token()
		d.checkSnapshot(in, o, o.el.Status())
	case AStopStart:
		// an application that restarts its election: Start the moment its own Stop has returned
		_ = o.el.Stop()
		ctx, cancel := context.WithCancel(context.Background())
		if in.cfg.CorrID {
			ctx = context.WithValue(ctx, "correlation_id", fmt.Sprintf("run-%s-%d", in.cfg.ID, o.gen))
		}
		if err = o.el.Start(ctx); err == nil {
			d.mu.Lock()
			o.cancelStart = cancel
			d.mu.Unlock()
		} else {
			cancel()
		}
	case ARegister:
		o.el.OnPromote(func(ctx context.Context, token string) { freeCb.Add(1) })
		o.el.OnDemote(func() { freeCb.Add(1) })
	}
	d.mu.Lock()
	ev.Err, ev.Bool = err, b
	ev.TRet = d.now()
	ev.SRet = d.step
	in.apiBusy--
	if (a.Kind == AStart || a.Kind == ARestart) && err != nil && strings.Contains(err.Error(), "connection monitor") {
		d.probe("start_refused_by_connection_monitor")
	}
	switch a.Kind {
	case AStop, AStopCtx:
		in.inStopCall--
		if ev.duringStart && err == leader.ErrAlreadyStopped {
			// the stop call overtook the Start it overlapped: it found the object not started and
			// did nothing; the Start that came after it stands
			o.stopsDuringStart--
			if o.stopsDuringStart == 0 && o.startInFlight == 0 && o.startOKPending && in.cur == o && !o.dead {
				o.startOKPending = false
				in.running = true
				in.stopRetStep = 0
				in.opsAfterStop = nil
				in.watchOK = false
				d.probe("noop_stop_overtook_start")
			}
		}
		if err != nil && err != leader.ErrAlreadyStopped {
			// (whatever else happened meanwhile: a StopWithContext that failed promises no OnDemote)
			o.failedStop = true
		}
		if in.nStarted != ev.startsAtInv {
			// a Start succeeded while this stop call was in progress: a new run began, and this
			// call's return is not "the instance is stopped"
			d.probe("stop_returned_after_restart")
		} else if err == nil {
			in.stopRetStep = d.step
			if in.stopRetStep == 0 {
				in.stopRetStep = 1
			}
			in.stopRetAt = ev.TRet
			in.stopOK = true
		} else if err != leader.ErrAlreadyStopped {
			// failed StopWithContext: instance is in limbo; not judged as stopped
			in.stopOK = false
			o.failedStop = true
		}
	}
	d.logf("api-ret i%d.%d %s err=%v b=%v", in.idx, o.gen, a.Kind, errStr(err), b)
	d.mu.Unlock()
	d.signal()
}

// checkSnapshot: every Status() snapshot handed to a caller is self-consistent, whatever it
// overlaps with (C18). Called from client goroutines.
func (d *Driver) checkSnapshot(in *Inst, o *elObj, st leader.ElectionStatus) {
	if d.free || !d.plan.judges("C18") {
		return
	}
	d.mu.Lock()
	defer d.mu.Unlock()
	d.judgedInc("C18")
	if st.IsLeader != (st.State == "LEADER") {
		d.h.violate("C18", fmt.Sprintf("api-snapshot-isleader-state-mismatch/%v/%s", st.IsLeader, st.State), fmt.Sprintf("i%d.%d Status() returned to a caller: IsLeader=%v State=%s", in.idx, o.gen, st.IsLeader, st.State), d.now(), d.step)
	}
	if !validStates[st.State] {
		d.h.violate("C18", "undocumented-state/"+st.State, fmt.Sprintf("i%d.%d State=%q", in.idx, o.gen, st.State), d.now(), d.step)
	}
	if st.IsLeader && st.State == "LEADER" && st.LeaderID != in.cfg.ID {
		d.h.violate("C18", "api-snapshot-leader-leaderid", fmt.Sprintf("i%d.%d leader snapshot with LeaderID=%q", in.idx, o.gen, st.LeaderID), d.now(), d.step)
	}
}

func errStr(e error) string {
	if e == nil {
		return "-"
	}
	s := e.Error()
	if i := strings.IndexByte(s, '\n'); i >= 0 {
		s = s[:i]
	}
	return s
}

// notify injects a connection notification through the handler the library's
// monitor registered on the (unconnected) nats.Conn.
func (d *Driver) notify(o *elObj, kind string) {
	var cb nats.ConnHandler
	switch kind {
	case ADisconnect:
		cb = o.conn.Opts.DisconnectedCB
	case AReconnect:
		cb = o.conn.ReconnectHandler()
	case AClosed:
		cb = o.conn.ClosedHandler()
	}
	d.mu.Lock()
	d.h.Notifs = append(d.h.Notifs, &NotifEvt{Inst: o.in.idx, Gen: o.gen, Kind: kind, T: d.now(), Step: d.step, Leader: o.el.IsLeader()})
	d.fault("notif_" + kind)
	d.mu.Unlock()
	if cb == nil {
		return
	}
	ne := d.h.Notifs[len(d.h.Notifs)-1]
	go func() {
		cb(o.conn)
		d.mu.Lock()
		ne.DoneStep, ne.DoneOrd = d.step, d.h.nextOrd()
		d.logf("notif-done %s i%d", kind, o.in.idx)
		d.mu.Unlock()
		d.signal()
	}()
}
