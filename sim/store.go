package sim

import (
	"encoding/json"
	"errors"
	"fmt"
	"time"

	"github.com/nats-io/nats.go"
)

// Reference model of one JetStream KV bucket (history 1, MaxAge = TTL).
// It is the stub under the library, the oracles' ground truth, and the model
// the real server is compared with in C14. It has no concurrency of its own:
// every operation is atomic at its apply step.

const (
	opPut = 1
	opDel = 2
)

// Version is one message of a key's history.
type Version struct {
	Key    string
	Seq    uint64
	Op     int
	Val    []byte
	At     time.Duration // apply time
	Step   uint64
	Writer int    // instance index; -1 = outsider
	Gen    int    // election object generation of the writer
	OpID   int    // store-op id that wrote it (index in Hist.Ops), -1 outsider
	Kind   string // "create","update","delete","put"
	// End of life (filled lazily): when it stopped being the key's last live message.
	End      time.Duration // -1 while current
	EndStep  uint64
	EndCause string // "replaced","deleted","expired"
	// Parsed payload (strict reader of the oracle).
	P Payload
}

type Payload struct {
	OK    bool // well-formed object with string id and token
	ID    string
	Token string
	Prio  int
}

func parsePayload(b []byte) Payload {
	var m map[string]json.RawMessage
	if json.Unmarshal(b, &m) != nil {
		return Payload{}
	}
	var p Payload
	if raw, ok := m["id"]; !ok || json.Unmarshal(raw, &p.ID) != nil || len(raw) == 0 || raw[0] != '"' {
		return Payload{}
	}
	if raw, ok := m["token"]; !ok || json.Unmarshal(raw, &p.Token) != nil || len(raw) == 0 || raw[0] != '"' {
		return Payload{}
	}
	if raw, ok := m["priority"]; ok {
		_ = json.Unmarshal(raw, &p.Prio)
	}
	p.OK = true
	return p
}

type Store struct {
	MaxAge  time.Duration
	Dialect string
	seq     uint64
	last    map[string]*Version
	All     []*Version
}

func NewStore(maxAge time.Duration, dialect string) *Store {
	return &Store{MaxAge: maxAge, Dialect: dialect, last: map[string]*Version{}}
}

// expire retires the key's last message if its age reached MaxAge.
func (s *Store) expire(key string, now time.Duration) {
	v := s.last[key]
	if v != nil && s.MaxAge > 0 && now >= v.At+s.MaxAge {
		v.End = v.At + s.MaxAge
		v.EndCause = "expired"
		delete(s.last, key)
	}
}

// Last returns the key's last message (PUT or DEL) if not expired.
func (s *Store) Last(key string, now time.Duration) *Version {
	s.expire(key, now)
	return s.last[key]
}

// Live returns the key's live PUT, or nil.
func (s *Store) Live(key string, now time.Duration) *Version {
	v := s.Last(key, now)
	if v != nil && v.Op == opPut {
		return v
	}
	return nil
}

func (s *Store) lastSeq(key string, now time.Duration) uint64 {
	if v := s.Last(key, now); v != nil {
		return v.Seq
	}
	return 0
}

func (s *Store) write(key string, op int, val []byte, now time.Duration, step uint64, w writer) *Version {
	if old := s.last[key]; old != nil {
		old.End = now
		old.EndStep = step
		if op == opDel {
			old.EndCause = "deleted"
		} else {
			old.EndCause = "replaced"
		}
	}
	s.seq++
	v := &Version{Key: key, Seq: s.seq, Op: op, Val: append([]byte(nil), val...), At: now, Step: step,
		Writer: w.inst, Gen: w.gen, OpID: w.op, Kind: w.kind, End: -1}
	if op == opPut {
		v.P = parsePayload(val)
	}
	s.last[key] = v
	s.All = append(s.All, v)
	return v
}

type writer struct {
	inst, gen, op int
	kind          string
}

func (s *Store) errWrongSeq(n uint64) error {
	if s.Dialect == "mock" {
		return errors.New("revision mismatch")
	}
	return &nats.APIError{Code: 400, ErrorCode: nats.JSErrCodeStreamWrongLastSequence,
		Description: fmt.Sprintf("wrong last sequence: %d", n)}
}

func (s *Store) errKeyExists(n uint64) error {
	if s.Dialect == "mock" {
		return errors.New("key already exists")
	}
	return fmt.Errorf("%w: %s", s.errWrongSeq(n), "key exists")
}

func (s *Store) errNotFound() error {
	if s.Dialect == "mock" {
		return errors.New("key not found")
	}
	return nats.ErrKeyNotFound
}

func (s *Store) Create(key string, val []byte, now time.Duration, step uint64, w writer) (*Version, error) {
	if v := s.Live(key, now); v != nil {
		return nil, s.errKeyExists(v.Seq)
	}
	w.kind = "create"
	return s.write(key, opPut, val, now, step, w), nil
}

func (s *Store) Update(key string, val []byte, rev uint64, now time.Duration, step uint64, w writer) (*Version, error) {
	if ls := s.lastSeq(key, now); ls != rev {
		if s.Dialect == "mock" && ls == 0 {
			return nil, errors.New("key not found")
		}
		return nil, s.errWrongSeq(ls)
	}
	w.kind = "update"
	return s.write(key, opPut, val, now, step, w), nil
}

func (s *Store) Get(key string, now time.Duration) (*Version, error) {
	if v := s.Live(key, now); v != nil {
		return v, nil
	}
	return nil, s.errNotFound()
}

func (s *Store) Delete(key string, now time.Duration, step uint64, w writer) *Version {
	s.expire(key, now)
	w.kind = "delete"
	return s.write(key, opDel, nil, now, step, w)
}

func (s *Store) Put(key string, val []byte, now time.Duration, step uint64, w writer) *Version {
	s.expire(key, now)
	w.kind = "put"
	return s.write(key, opPut, val, now, step, w)
}

// ForceExpire removes the key's last message as if MaxAge had elapsed.
func (s *Store) ForceExpire(key string, now time.Duration, step uint64) {
	if v := s.last[key]; v != nil {
		v.End = now
		v.EndStep = step
		v.EndCause = "expired"
		delete(s.last, key)
	}
}

// Finish closes the End of every version for history checks at time now.
func (s *Store) Finish(now time.Duration) {
	for k := range s.last {
		s.expire(k, now)
	}
}

// EndAt returns the time the version stopped being live, capped by expiry.
func (v *Version) EndAt(maxAge time.Duration) (time.Duration, string) {
	exp := v.At + maxAge
	if v.End >= 0 && v.End <= exp {
		return v.End, v.EndCause
	}
	if maxAge > 0 {
		return exp, "expired"
	}
	return -1, ""
}
