package sim

import (
	"encoding/json"
	"time"
)

// A Plan fixes everything about one simulated run. Given a Plan (and the code
// under test) the run is a pure function: every residual choice is drawn from
// PRNG streams derived from Plan.Seed.
type Plan struct {
	Seed   uint64 `json:"seed"`
	Family string `json:"family"`
	// Judge lists the oracles (property ids) that give verdicts on this run.
	Judge []string `json:"judge"`
	// NoJudge lists oracles whose precondition this plan violates by construction; they give no
	// verdict on it even when a check overrides Judge.
	NoJudge []string `json:"no_judge,omitempty"`
	// StartDuringStop: Start calls are issued also while a stop call of the same instance has not
	// returned (deterministic mode normally skips them). A Start that succeeds inside a stop call
	// begins a new run; that stop call's return then says nothing about the new run.
	StartDuringStop bool `json:"start_during_stop,omitempty"`

	H      Dur    `json:"h"`   // heartbeat interval (all instances)
	TTL    Dur    `json:"ttl"` // election TTL == bucket MaxAge
	Bucket string `json:"bucket,omitempty"`

	Insts   []InstCfg `json:"insts"`
	Store   StoreCfg  `json:"store"`
	Actions []Action  `json:"actions"`
	Faults  []Fault   `json:"faults,omitempty"`
	Sched   SchedCfg  `json:"sched"`

	Until Dur `json:"until"` // virtual duration of the scripted part
	Tail  Dur `json:"tail"`  // fault-free tail appended after Until (liveness)

	// Note is free text from the generator (never interpreted).
	Note string `json:"note,omitempty"`
}

// Dur is a time.Duration that marshals as integer nanoseconds.
type Dur = time.Duration

type InstCfg struct {
	ID       string `json:"id"`
	Group    string `json:"group"`
	Prio     int    `json:"prio,omitempty"`
	Takeover bool   `json:"takeover,omitempty"`
	V        Dur    `json:"v,omitempty"`     // ValidationInterval (0 = library default 5s)
	Grace    Dur    `json:"grace,omitempty"` // DisconnectGracePeriod
	Monitor  bool   `json:"monitor,omitempty"`
	// Health: nil = no checker. Otherwise script of results consumed one per
	// call; after the script ends HealthRest applies ('h','u','s').
	Health     string `json:"health,omitempty"`
	HealthRest string `json:"health_rest,omitempty"`
	HasHealth  bool   `json:"has_health,omitempty"`
	MaxHealth  int    `json:"max_health,omitempty"`
	// HealthBlock: how long a 'b' / 'B' result blocks - a checker that ignores its context (a probe
	// without a deadline) and then reports unhealthy ('b') or healthy ('B')
	HealthBlock Dur `json:"health_block,omitempty"`
	// Callbacks
	PromoteMode string `json:"promote_mode,omitempty"` // "block" (until ctx done) | "return" | "sleep"
	PromoteDur  Dur    `json:"promote_dur,omitempty"`
	DemoteDur   Dur    `json:"demote_dur,omitempty"`
	NoCallbacks bool   `json:"no_callbacks,omitempty"`
	// OnDemoteAfter: 0 = OnDemote is registered before Start (like OnPromote); > 0 = it is
	// registered only at that virtual time; < 0 = never (OnPromote alone is registered).
	OnDemoteAfter Dur `json:"ondemote_after,omitempty"`
	// NoMetrics / NoLogger: the optional configuration fields Metrics / Logger are left nil. Without
	// Metrics the harness observes the leadership flag by polling (before every lock release of the
	// instrumented copy and at quiescent points); without Logger the watch counts as established
	// when the instance's Watch call has returned.
	NoMetrics bool `json:"no_metrics,omitempty"`
	NoLogger  bool `json:"no_logger,omitempty"`
	// CorrID: the context given to Start carries a "correlation_id" value (a documented logging feature)
	CorrID bool `json:"corr_id,omitempty"`
}

type StoreCfg struct {
	// Request and response legs of every store operation: uniform in [Lo,Hi].
	Req        [2]Dur `json:"req"`
	Resp       [2]Dur `json:"resp"`
	WatchDelay [2]Dur `json:"watch_delay"`
	// Dialect: "nats" (real client error values) or "mock" (natsmock texts).
	Dialect string `json:"dialect,omitempty"`
	// ClientTimeout: how long the simulated client waits for a lost response.
	ClientTimeout Dur `json:"client_timeout,omitempty"`
	// Binding: "adapter" (library's nats.KeyValue adapter over the stub) or
	// "direct" (stub implements leader.KeyValue).
	Binding string `json:"binding,omitempty"`
}

type SchedCfg struct {
	// YieldProb: probability that a verifYield site parks the goroutine.
	YieldProb float64 `json:"yield_prob"`
	// StallMax: maximal virtual stall at a parked yield (0 = pure reordering).
	StallMax Dur `json:"stall_max"`
	// StallUntil: stalls are only injected before this virtual time (0 = during the whole run);
	// afterwards a parked yield is a pure reordering.
	StallUntil Dur `json:"stall_until,omitempty"`
	// StallFrom: stalls are only injected from this virtual time on
	StallFrom Dur `json:"stall_from,omitempty"`
	// StallSites: when set, only parks at these yield sites stall (and always do); parks at other
	// sites are pure reorderings. Places the slow moments inside one kind of in-flight operation.
	StallSites []string `json:"stall_sites,omitempty"`
	// StallUnknown: goroutines that the harness cannot attribute to an instance may stall too (their
	// stalls are not accounted to any instance: only for plans judged by oracles without timing bounds)
	StallUnknown bool `json:"stall_unknown,omitempty"`
	// InLock: probability that a yield site reached while the goroutine holds a library mutex (a
	// nested lock acquisition or release, an application plug-in called under the mutex) parks it
	// there - a pure reordering, zero virtual duration. Goroutines that then ask for a mutex owned by
	// a parked goroutine are held back before their Lock call until it is released (0 = never: a
	// goroutine that holds a lock is not parked).
	InLock float64 `json:"in_lock,omitempty"`
	// Free: free-run mode (C20): no central scheduling, store operations applied by the
	// calling goroutine, observers off; used under the race detector.
	Free bool `json:"free,omitempty"`
}

// Action kinds.
const (
	AStart       = "start"
	AStop        = "stop"
	AStopCtx     = "stopctx"
	ARestart     = "restart" // new election object with the same InstanceID, then Start
	ACrash       = "crash"   // permanent partition + abandon
	AValidate    = "validate"
	AValidateOD  = "validate_or_demote"
	ADisconnect  = "disconnect"
	AReconnect   = "reconnect"
	AClosed      = "closed"
	AOutPut      = "out_put"
	AOutDelete   = "out_delete"
	AExpire      = "expire_now"
	ACancelStart = "cancel_start_ctx"
	AStatus      = "status"
	AReadAPI     = "read_api"        // IsLeader, LeaderID, Token, Status
	ARegister    = "register_cbs"    // OnPromote/OnDemote re-registration
	AStopStart   = "stop_then_start" // Stop followed at once by Start, in one goroutine (free-run plans only)
)

type Action struct {
	// Trigger: At (absolute virtual time) or, if OpN>0, the moment instance
	// Inst's OpN-th store operation (1-based) reaches Phase
	// ("invoke","apply","return"), plus Delay.
	At  Dur `json:"at"`
	OpN int `json:"op_n,omitempty"`
	// OpKind: when set, OpN counts only the instance's operations of this kind (create, update, ...)
	OpKind string `json:"op_kind,omitempty"`
	Phase  string `json:"phase,omitempty"`
	Delay  Dur    `json:"delay,omitempty"`
	// OnInst: the operation counted is that of instance OnInst-1 instead of the action's own (0 = own)
	OnInst int `json:"on_inst,omitempty"`

	Kind string `json:"kind"`
	Inst int    `json:"inst"` // index into Plan.Insts (ignored for outsider actions)

	// StopWithContext options.
	DeleteKey     bool `json:"delete_key,omitempty"`
	WaitForDemote bool `json:"wait_for_demote,omitempty"`
	Timeout       Dur  `json:"timeout,omitempty"`
	CtxTimeout    Dur  `json:"ctx_timeout,omitempty"` // 0 = no deadline
	CtxCancelAt   Dur  `json:"ctx_cancel_after,omitempty"`
	// Validate: context behaviour. CtxTimeout as above; CtxCancelled = already cancelled.
	CtxCancelled bool `json:"ctx_cancelled,omitempty"`
	// Outsider payloads.
	Key   string `json:"key,omitempty"`
	Value []byte `json:"value,omitempty"`
}

// Fault kinds.
const (
	FDropReq    = "drop_req"    // request never reaches the store; client times out
	FDropResp   = "drop_resp"   // applied, acknowledgement lost; client times out
	FError      = "error"       // immediate error, not applied
	FHang       = "hang"        // never applied, never answered (until client timeout)
	FSlow       = "slow"        // extra latency Arg
	FPartition  = "partition"   // all ops dropped, watch deliveries withheld
	FWatchDrop  = "watch_drop"  // watch events for the instance are dropped
	FWatchHold  = "watch_hold"  // watch events held back until the window ends
	FWatchDup   = "watch_dup"   // each event delivered twice
	FWatchFail  = "watch_fail"  // Watch() call fails
	FWatchClose = "watch_close" // server closes the watch channel at From
)

type Fault struct {
	Kind string `json:"kind"`
	Inst int    `json:"inst"`         // -1 = all
	Op   string `json:"op,omitempty"` // "", "create","update","get","delete","watch"
	From Dur    `json:"from"`
	To   Dur    `json:"to"` // exclusive; 0 = forever
	// Point fault: applies to the instance's OpN-th operation of kind Op
	// counted per kind (1-based) instead of a window.
	OpN int    `json:"op_n,omitempty"`
	Err string `json:"err,omitempty"` // for FError: "timeout","noresponders","closed","deadline","permission","bucket"
	Arg Dur    `json:"arg,omitempty"`
	// Prob < 1 makes a window fault fire per operation with that probability.
	Prob float64 `json:"prob,omitempty"`
}

func (p *Plan) JSON() string {
	b, _ := json.Marshal(p)
	return string(b)
}

func PlanFromJSON(b []byte) (*Plan, error) {
	var p Plan
	if err := json.Unmarshal(b, &p); err != nil {
		return nil, err
	}
	return &p, nil
}

func (p *Plan) judges(id string) bool {
	for _, j := range p.NoJudge {
		if j == id {
			return false
		}
	}
	for _, j := range p.Judge {
		if j == id {
			return true
		}
	}
	return false
}

// sameID: two instances of the plan share one InstanceID.
func (p *Plan) sameID() bool {
	for i := range p.Insts {
		for j := 0; j < i; j++ {
			if p.Insts[i].ID == p.Insts[j].ID {
				return true
			}
		}
	}
	return false
}
