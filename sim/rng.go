package sim

import (
	"hash/fnv"
	"time"
)

// Rng is a small deterministic PRNG (splitmix64). Every random decision of a
// run is drawn from a stream derived from Plan.Seed and a label, so that
// removing an action while shrinking does not shift unrelated streams.
type Rng struct{ s uint64 }

func NewRng(seed uint64, label string) *Rng {
	h := fnv.New64a()
	h.Write([]byte(label))
	r := &Rng{s: seed ^ (h.Sum64() * 0x9E3779B97F4A7C15)}
	r.U64()
	return r
}

func (r *Rng) U64() uint64 {
	r.s += 0x9E3779B97F4A7C15
	z := r.s
	z = (z ^ (z >> 30)) * 0xBF58476D1CE4E5B9
	z = (z ^ (z >> 27)) * 0x94D049BB133111EB
	return z ^ (z >> 31)
}

func (r *Rng) Intn(n int) int {
	if n <= 0 {
		return 0
	}
	return int(r.U64() % uint64(n))
}

func (r *Rng) F() float64 { return float64(r.U64()>>11) / (1 << 53) }

func (r *Rng) Bool(p float64) bool { return r.F() < p }

// Dur draws uniformly from [lo, hi].
func (r *Rng) Dur(lo, hi time.Duration) time.Duration {
	if hi <= lo {
		return lo
	}
	return lo + time.Duration(r.U64()%uint64(hi-lo+1))
}

func Pick[T any](r *Rng, xs []T) T { return xs[r.Intn(len(xs))] }
