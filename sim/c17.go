package sim

import (
	"context"
	"errors"
	"fmt"
	"math"
	"math/rand/v2"
	"strings"
	"testing"
	"testing/synctest"
	"time"

	leader "github.com/ali-assar/NATS-Leader-Election/leader"
)

// C17 (i) RetryWithBackoff and (ii) CircuitBreaker under the fake clock, with generated
// outcome scripts, cancellation times and call times around the cooldown edge. The jitter
// draw of every computed backoff is supplied by the harness (math/rand/v2 overlay), so the
// expected gaps are exact, not tolerance windows.

type c17Scenario struct {
	Kind        string  `json:"kind"` // "retry" | "breaker"
	Seed        uint64  `json:"seed"`
	MaxAttempts int     `json:"max_attempts"`
	Init, Max   Dur     `json:"-"`
	InitNs      int64   `json:"init_ns"`
	MaxNs       int64   `json:"max_ns"`
	Mult        float64 `json:"mult"`
	Jitter      float64 `json:"jitter"`
	Script      string  `json:"script"`
	OpDur       []int64 `json:"op_dur_ns"`
	CancelAt    int64   `json:"cancel_at_ns"` // -1 none
	Breaker     bool    `json:"breaker"`
	Threshold   int     `json:"threshold"`
	Cooldown    int64   `json:"cooldown_ns"`
	Gaps        []int64 `json:"gaps_ns"` // breaker: time between calls
}

func errOf(c byte) error {
	switch c {
	case 'n':
		return nil
	case 't':
		return errors.New("connection lost")
	case 'p':
		return leader.ErrPermissionDenied
	case 'P':
		return fmt.Errorf("wrapped: %w", leader.ErrBucketNotFound)
	case 'E': // a permanent sentinel inside the library's structured error, with a reason of its own
		return leader.NewElectionError("ACCESS", "n1", "store refused the credentials", leader.ErrPermissionDenied)
	case 'F': // ... inside somebody else's wrapper type
		return &foreignErr{msg: "operation failed", err: leader.ErrInvalidConfig}
	case 'T':
		return leader.NewTimeoutError("op", time.Second, nil)
	case 'W':
		return fmt.Errorf("wrapped: %w", leader.NewTimeoutError("op", time.Second, nil))
	case 'c':
		return context.Canceled
	case 'd':
		return context.DeadlineExceeded
	}
	return errors.New("x")
}

func isPermScript(c byte) bool { return c == 'p' || c == 'P' || c == 'E' || c == 'F' }

// foreignErr wraps an error without repeating its text.
type foreignErr struct {
	msg string
	err error
}

func (e *foreignErr) Error() string { return e.msg }
func (e *foreignErr) Unwrap() error { return e.err }

func genC17(seed uint64) *c17Scenario {
	r := NewRng(seed, "c17")
	s := &c17Scenario{Seed: seed, CancelAt: -1}
	if r.Bool(0.45) {
		s.Kind = "breaker"
		s.Threshold = 1 + r.Intn(5)
		s.Cooldown = int64(Pick(r, []time.Duration{10 * ms, 1 * sec, 30 * sec}))
		n := 5 + r.Intn(25)
		for i := 0; i < n; i++ {
			s.Script += string(Pick(r, []byte{'n', 't', 't', 't', 'p', 'T'}))
			s.OpDur = append(s.OpDur, int64(Pick(r, []time.Duration{0, 0, 1 * ms, 500 * ms})))
			c := time.Duration(s.Cooldown)
			s.Gaps = append(s.Gaps, int64(Pick(r, []time.Duration{0, 1, c - 1, c, c + 1, c / 2, 2 * c, r.Dur(0, 2*c)})))
		}
		return s
	}
	s.Kind = "retry"
	if r.Bool(0.1) {
		// a long retry with a gentle multiplier: dozens of attempts before the cap is reached
		s.MaxAttempts = 0
		s.InitNs = int64(Pick(r, []time.Duration{1 * ms, 10 * ms}))
		s.MaxNs = int64(Pick(r, []time.Duration{5 * sec, time.Hour}))
		s.Mult = Pick(r, []float64{1.05, 1.1, 1.2})
		s.Jitter = Pick(r, []float64{0, 0.1, 0.5})
		n := 35 + r.Intn(30)
		for i := 0; i < n; i++ {
			s.Script += "t"
			s.OpDur = append(s.OpDur, 0)
		}
		s.Script += "n"
		s.OpDur = append(s.OpDur, 0)
		return s
	}
	s.MaxAttempts = r.Intn(8)
	s.InitNs = int64(Pick(r, []time.Duration{0, 1 * ms, 50 * ms, 1 * sec}))
	s.MaxNs = int64(Pick(r, []time.Duration{10 * ms, 5 * sec, time.Hour}))
	s.Mult = Pick(r, []float64{1, 1.5, 2, 10})
	s.Jitter = Pick(r, []float64{0, 0.1, 0.5, 1})
	n := 1 + r.Intn(10)
	for i := 0; i < n; i++ {
		s.Script += string(Pick(r, []byte{'t', 't', 't', 'T', 'W', 'd', 'c', 'n', 'p', 'P', 'E', 'F'}))
		s.OpDur = append(s.OpDur, int64(Pick(r, []time.Duration{0, 0, 1 * ms, 300 * ms})))
	}
	if s.MaxAttempts == 0 && !strings.ContainsAny(s.Script, "npPEF") {
		s.Script += "n" // an unbounded retry must end somehow
		s.OpDur = append(s.OpDur, 0)
	}
	if r.Bool(0.4) {
		s.CancelAt = int64(r.Dur(0, 3*sec))
		if r.Bool(0.2) {
			s.CancelAt = 0
		}
	}
	if r.Bool(0.3) {
		s.Breaker = true
		s.Threshold = 1 + r.Intn(4)
		s.Cooldown = int64(Pick(r, []time.Duration{10 * ms, 1 * sec}))
	}
	return s
}

func refBackoff(init, max time.Duration, mult, jit float64, attempt int, f float64) time.Duration {
	b := float64(init) * math.Pow(mult, float64(attempt))
	if b > float64(max) {
		b = float64(max)
	}
	j := b * jit * (f*2 - 1)
	fb := b + j
	if fb < 0 {
		fb = b
	}
	return time.Duration(fb)
}

// RunC17 executes one scenario in a bubble and returns the verdicts.
func RunC17(t *testing.T, seed uint64) *Result {
	sc := genC17(seed)
	res := &Result{Seed: seed, Family: "c17lib"}
	var viol []Violation
	bad := func(sig, detail string) {
		viol = append(viol, Violation{Prop: "C17", Sig: sig, Detail: detail})
	}
	rj := NewRng(seed, "c17jit")
	var draws []float64
	prev := rand.SimUint64
	rand.SimUint64 = func() uint64 {
		u := rj.U64()
		draws = append(draws, float64(u<<11>>11)/(1<<53))
		return u
	}
	defer func() { rand.SimUint64 = prev }()
	// select statements with several ready cases choose by the run's seed, as in RunPlan
	simSelectState = NewRng(seed, "select").U64() | 1
	defer func() { simSelectState = 0 }()
	judged := 0
	synctest.Test(t, func(t *testing.T) {
		start := time.Now()
		now := func() time.Duration { return time.Since(start) }
		if sc.Kind == "breaker" {
			cb := leader.NewCircuitBreaker(sc.Threshold, time.Duration(sc.Cooldown))
			fails := 0
			var lastFail time.Duration = -1
			for i := 0; i < len(sc.Script); i++ {
				time.Sleep(time.Duration(sc.Gaps[i]))
				invoked := false
				tcall := now()
				err := cb.Call(func() error {
					invoked = true
					time.Sleep(time.Duration(sc.OpDur[i]))
					return errOf(sc.Script[i])
				})
				judged++
				open := fails >= sc.Threshold
				mustBlock := open && tcall-lastFail < time.Duration(sc.Cooldown)
				if mustBlock {
					if invoked {
						bad("breaker-invoked-while-open", fmt.Sprintf("call %d at %v: %d consecutive failures (threshold %d), last failure at %v, cooldown %v, but the operation was invoked", i, tcall, fails, sc.Threshold, lastFail, time.Duration(sc.Cooldown)))
					}
					if err == nil {
						bad("breaker-open-returned-nil", fmt.Sprintf("call %d while open returned nil", i))
					}
					continue
				}
				if !invoked {
					why := "closed"
					if open {
						why = "open past its cooldown"
					}
					bad("breaker-not-invoked/"+why, fmt.Sprintf("call %d at %v: breaker %s (failures %d, threshold %d, last failure %v, cooldown %v) but the operation was not invoked", i, tcall, why, fails, sc.Threshold, lastFail, time.Duration(sc.Cooldown)))
					continue
				}
				want := errOf(sc.Script[i])
				if (err == nil) != (want == nil) {
					bad("breaker-wrong-result", fmt.Sprintf("call %d returned %v, operation returned %v", i, err, want))
				}
				if want == nil {
					fails = 0
				} else {
					fails++
					lastFail = now()
				}
			}
			return
		}
		// ---- retry
		ctx, cancel := context.WithCancel(context.Background())
		defer cancel()
		var cancelledAt time.Duration = -1
		if sc.CancelAt == 0 {
			cancel()
			cancelledAt = 0
		} else if sc.CancelAt > 0 {
			time.AfterFunc(time.Duration(sc.CancelAt), func() { cancelledAt = now(); cancel() })
		}
		cfg := leader.RetryConfig{MaxAttempts: sc.MaxAttempts, BackoffConfig: leader.BackoffConfig{InitialBackoff: time.Duration(sc.InitNs), MaxBackoff: time.Duration(sc.MaxNs), BackoffMultiplier: sc.Mult, Jitter: sc.Jitter}}
		refFails, refLast := 0, time.Duration(-1)
		if sc.Breaker {
			cfg.CircuitBreaker = leader.NewCircuitBreaker(sc.Threshold, time.Duration(sc.Cooldown))
		}
		type inv struct{ start, end time.Duration }
		var invs []inv
		k := 0
		runaway := false
		err := leader.RetryWithBackoff(ctx, cfg, func() error {
			i := k
			if i >= len(sc.Script) {
				i = len(sc.Script) - 1
			}
			k++
			if k > len(sc.Script)+sc.MaxAttempts+8 {
				// the loop does not stop where it must (the script ends with a success or a permanent
				// error): end the run here instead of spinning for ever; the verdict below reports it
				runaway = true
				cancel()
				return context.Canceled
			}
			s0 := now()
			time.Sleep(time.Duration(sc.OpDur[i]))
			invs = append(invs, inv{s0, now()})
			return errOf(sc.Script[i])
		})
		if runaway {
			bad("retry-does-not-stop", fmt.Sprintf("the operation was invoked more than %d times although invocation %d of the script (%s) ends the loop", len(sc.Script)+sc.MaxAttempts+8, len(sc.Script), sc.Script))
		}
		judged++
		n := len(invs)
		if sc.MaxAttempts > 0 && n > sc.MaxAttempts {
			bad("retry-more-than-max-attempts", fmt.Sprintf("MaxAttempts=%d but the operation was invoked %d times", sc.MaxAttempts, n))
		}
		// what must have stopped the loop
		stopAt := -1
		for i := 0; i < n; i++ {
			c := sc.Script[minInt(i, len(sc.Script)-1)]
			if c == 'n' || isPermScript(c) {
				stopAt = i
				break
			}
		}
		if stopAt >= 0 && n > stopAt+1 {
			bad("retry-invoked-after-final-outcome", fmt.Sprintf("invocation %d returned %q (success or permanent error) but %d invocations were made", stopAt, sc.Script[minInt(stopAt, len(sc.Script)-1)], n))
		}
		if cancelledAt >= 0 {
			for i, v := range invs {
				if v.start > cancelledAt {
					bad("retry-invoked-after-cancellation", fmt.Sprintf("context cancelled at %v, invocation %d started at %v", cancelledAt, i, v.start))
				}
			}
		}
		// gaps = the backoff computed from the property's formula with the draw the harness supplied
		if !sc.Breaker {
			for i := 1; i < n; i++ {
				if i-1 >= len(draws) {
					break
				}
				want := refBackoff(time.Duration(sc.InitNs), time.Duration(sc.MaxNs), sc.Mult, sc.Jitter, i-1, draws[i-1])
				got := invs[i].start - invs[i-1].end
				if got != want {
					bad("retry-gap-differs-from-backoff", fmt.Sprintf("gap before invocation %d is %v, backoff(attempt %d, draw %.6f) = %v", i, got, i-1, draws[i-1], want))
				}
				base := math.Min(float64(sc.MaxNs), float64(sc.InitNs)*math.Pow(sc.Mult, float64(i-1)))
				if float64(want) < base*(1-sc.Jitter)-1 || float64(want) > base*(1+sc.Jitter)+1 || want < 0 {
					bad("backoff-outside-jitter-band", fmt.Sprintf("backoff %v for attempt %d outside +/-%v of %v", want, i-1, sc.Jitter, time.Duration(base)))
				}
			}
		} else {
			_ = refFails
			_ = refLast
		}
		// returned error
		switch {
		case stopAt >= 0 && n == stopAt+1 && sc.Script[minInt(stopAt, len(sc.Script)-1)] == 'n':
			if err != nil {
				bad("retry-success-returned-error", fmt.Sprintf("operation succeeded at invocation %d but RetryWithBackoff returned %v", stopAt, err))
			}
		case stopAt >= 0 && n == stopAt+1:
			if err == nil || !leader.IsPermanentError(err) {
				bad("retry-permanent-error-not-returned", fmt.Sprintf("operation returned a permanent error at invocation %d but RetryWithBackoff returned %v", stopAt, err))
			}
		default:
			if err == nil {
				bad("retry-nil-without-success", fmt.Sprintf("no invocation succeeded (%d invocations, script %s) but RetryWithBackoff returned nil", n, sc.Script))
			}
		}
	})
	res.Judged = map[string]int{"C17": judged}
	res.Stats.Faults = map[string]int{}
	res.Stats.Probes = map[string]int{"c17_" + sc.Kind: 1}
	if seed%25 == 0 {
		// the pure clause, outside the claimed level: generated inputs, not a simulation
		checked, out := PureBackoffCheck(seed, 400)
		res.Stats.Probes["unsimulated_pure_clause_values"] = checked
		for _, b := range out {
			bad("calculate-backoff-outside-bounds", b)
		}
	}
	res.Viol = viol
	res.Stats.InterleaveH = seed*2654435761 ^ uint64(len(sc.Script))<<40 ^ uint64(sc.MaxAttempts)<<32 ^ uint64(sc.Threshold)<<28
	res.Stats.Terms = 1
	res.LogHash = fmt.Sprintf("%016x", res.Stats.InterleaveH)
	if len(viol) > 0 {
		res.Plan = &Plan{Seed: seed, Family: "c17lib", Judge: []string{"C17"}, Note: fmt.Sprintf("%+v", *sc)}
	}
	return res
}

// PureBackoffCheck is NOT simulation: a generated-input check of the pure clause of C17
// (CalculateBackoff within +/-Jitter of min(Max, Init*Mult^n), never negative), reported in
// evidence under unsimulated_pure_clause.
func PureBackoffCheck(seed uint64, n int) (checked int, bad []string) {
	r := NewRng(seed, "purebackoff")
	prev := rand.SimUint64
	defer func() { rand.SimUint64 = prev }()
	var f float64
	rand.SimUint64 = func() uint64 {
		u := r.U64()
		f = float64(u<<11>>11) / (1 << 53)
		return u
	}
	for i := 0; i < n; i++ {
		cfg := leader.BackoffConfig{
			InitialBackoff:    Pick(r, []time.Duration{0, 1, 1 * ms, 50 * ms, 1 * sec, time.Hour, 1<<62 - 1}),
			MaxBackoff:        Pick(r, []time.Duration{0, 1 * ms, 5 * sec, time.Hour, 1<<62 - 1, math.MaxInt64}),
			BackoffMultiplier: Pick(r, []float64{0, 0.5, 1, 1.01, 1.05, 1.2, 1.5, 2, 10, 1e9, -2}),
			Jitter:            Pick(r, []float64{0, 0.1, 0.5, 1}),
		}
		att := Pick(r, []int{0, 1, 2, 3, 10, 20, 31, 32, 33, 40, 62, 63, 64, 100, 200, 1000, 2000, 1 << 30})
		got := leader.CalculateBackoff(cfg, att)
		checked++
		if got < 0 {
			// "never negative" holds for every configuration and attempt number
			if len(bad) < 5 {
				bad = append(bad, fmt.Sprintf("CalculateBackoff(%+v, %d) with draw %.6f = %v: negative", cfg, att, f, got))
			}
			continue
		}
		if cfg.BackoffMultiplier < 0 {
			continue // the formula's value alternates in sign: only "never negative" is meaningful
		}
		// min(Max, Init x Mult^n) over the reals: a zero initial backoff gives zero whatever the power
		base := 0.0
		if cfg.InitialBackoff != 0 {
			base = float64(cfg.InitialBackoff) * math.Pow(cfg.BackoffMultiplier, float64(att))
			if base > float64(cfg.MaxBackoff) || math.IsInf(base, 1) {
				base = float64(cfg.MaxBackoff)
			}
		}
		lo, hi := base*(1-cfg.Jitter), base*(1+cfg.Jitter)
		tol := math.Max(2, math.Abs(base)*1e-9)
		// (a value beyond the largest Duration cannot be returned: the largest Duration is then within the band)
		if float64(got) < math.Min(lo, float64(math.MaxInt64))-tol || float64(got) > hi+tol {
			if len(bad) < 5 {
				bad = append(bad, fmt.Sprintf("CalculateBackoff(%+v, %d) with draw %.6f = %v, outside [%v, %v]", cfg, att, f, got, time.Duration(lo), time.Duration(hi)))
			}
		}
	}
	return
}

func minInt(a, b int) int {
	if a < b {
		return a
	}
	return b
}
