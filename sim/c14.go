package sim

import (
	"context"
	"errors"
	"fmt"
	"runtime"
	"strings"
	"sync"
	"testing"
	"testing/synctest"
	"time"

	leader "github.com/ali-assar/NATS-Leader-Election/leader"
	"github.com/nats-io/nats.go"
)

// ---------- C14 (a): the library's real adapter code over scripted nats.KeyValue/KeyWatcher ----------

type scriptWatcher struct {
	ch      chan nats.KeyValueEntry
	mu      sync.Mutex
	stopped bool
	stopErr error // what Stop returns (an unsubscribe on a closed connection fails)
	noClose bool  // Stop fails without closing the channel (nothing more will arrive either)
}

func (w *scriptWatcher) Context() context.Context           { return context.Background() }
func (w *scriptWatcher) Updates() <-chan nats.KeyValueEntry { return w.ch }
func (w *scriptWatcher) Error() <-chan error                { return nil }
func (w *scriptWatcher) Stop() error {
	w.mu.Lock()
	defer w.mu.Unlock()
	if !w.stopped {
		w.stopped = true
		if !w.noClose {
			close(w.ch)
		}
	}
	return w.stopErr
}

// liveKV: a one-key bucket whose first Get is served at once and answered late (fake clock).
type liveKV struct {
	nats.KeyValue
	mu           sync.Mutex
	rev          uint64
	val          []byte
	gets         int
	slowFirstGet time.Duration
}

func (k *liveKV) Get(key string) (nats.KeyValueEntry, error) {
	k.mu.Lock()
	k.gets++
	n := k.gets
	e := &stubEntry{bucket: "b", v: &Version{Key: key, Seq: k.rev, Op: opPut, Val: append([]byte(nil), k.val...)}}
	k.mu.Unlock()
	if n == 1 {
		time.Sleep(k.slowFirstGet)
	}
	return e, nil
}

func (k *liveKV) Update(key string, v []byte, last uint64) (uint64, error) {
	k.mu.Lock()
	defer k.mu.Unlock()
	if last != k.rev {
		return 0, &nats.APIError{Code: 400, ErrorCode: nats.JSErrCodeStreamWrongLastSequence, Description: fmt.Sprintf("wrong last sequence: %d", k.rev)}
	}
	k.rev++
	k.val = append([]byte(nil), v...)
	return k.rev, nil
}

type scriptKV struct {
	nats.KeyValue
	rev   uint64
	entry nats.KeyValueEntry
	err   error
	got   []string
	w     nats.KeyWatcher
}

func (k *scriptKV) Create(key string, v []byte) (uint64, error) {
	k.got = append(k.got, fmt.Sprintf("create %s %q", key, v))
	return k.rev, k.err
}
func (k *scriptKV) Update(key string, v []byte, last uint64) (uint64, error) {
	k.got = append(k.got, fmt.Sprintf("update %s %q %d", key, v, last))
	return k.rev, k.err
}
func (k *scriptKV) Get(key string) (nats.KeyValueEntry, error) {
	k.got = append(k.got, "get "+key)
	return k.entry, k.err
}
func (k *scriptKV) Delete(key string, opts ...nats.DeleteOpt) error {
	k.got = append(k.got, "delete "+key)
	return k.err
}
func (k *scriptKV) Watch(keys string, opts ...nats.WatchOpt) (nats.KeyWatcher, error) {
	k.got = append(k.got, "watch "+keys)
	if k.err != nil {
		return nil, k.err
	}
	return k.w, nil
}

// adapterGoroutines counts goroutines of the CURRENT bubble that have a watcher-adapter frame
// (goroutines leaked by earlier runs of this process live in other bubbles).
func adapterGoroutines() int {
	buf := make([]byte, 4<<20)
	n := runtime.Stack(buf, true)
	gs := strings.Split(string(buf[:n]), "\n\n")
	bubble := ""
	if i := strings.Index(gs[0], "synctest bubble "); i >= 0 {
		rest := gs[0][i:]
		if j := strings.IndexAny(rest, "]:,"); j > 0 {
			bubble = rest[:j]
		}
	}
	c := 0
	for _, g := range gs[1:] {
		hdr := g
		if i := strings.IndexByte(g, '\n'); i > 0 {
			hdr = g[:i]
		}
		if bubble == "" || !(strings.Contains(hdr, bubble+"]") || strings.Contains(hdr, bubble+",")) {
			continue
		}
		if strings.Contains(g, "natsWatcherAdapter") {
			c++
		}
	}
	return c
}

// RunC14 runs one generated consumer/producer/stop interleaving against the real watcher
// adapter, plus argument/result pass-through checks of the KeyValue adapter.
func RunC14(t *testing.T, seed uint64) *Result {
	r := NewRng(seed, "c14")
	res := &Result{Seed: seed, Family: "c14sim"}
	var viol []Violation
	var vmu sync.Mutex
	bad := func(sig, detail string) {
		vmu.Lock()
		viol = append(viol, Violation{Prop: "C14", Sig: sig, Detail: detail})
		vmu.Unlock()
	}
	mode := Pick(r, []string{"once", "every-iteration", "every-iteration", "multi"})
	nEvents := 1 + r.Intn(30)
	tickEvery := Pick(r, []time.Duration{1 * ms, 7 * ms, 500 * ms})
	gapMax := Pick(r, []time.Duration{0, 1 * ms, 20 * ms})
	judged := 0
	// select statements with several ready cases choose by the run's seed, as in RunPlan
	simSelectState = NewRng(seed, "select").U64() | 1
	defer func() { simSelectState = 0 }()
	func() {
		defer func() {
			if rec := recover(); rec != nil {
				msg := fmt.Sprint(rec)
				if strings.Contains(msg, "blocked goroutines remain") {
					bad("adapter-goroutines-left-after-stop", "goroutines of the watcher adapter were still blocked when the run ended (after Stop)")
					return
				}
				panic(rec)
			}
		}()
		synctest.Test(t, func(t *testing.T) {
			src := &scriptWatcher{ch: make(chan nats.KeyValueEntry, 256)}
			ad := leader.VerifNewWatcher(src)
			var mu sync.Mutex
			var got []uint64 // revisions received (0 = nil marker)
			var gotEmpty []bool
			chans := map[<-chan leader.Entry]bool{}
			stopC := make(chan struct{})
			var wg sync.WaitGroup
			consume := func() {
				defer wg.Done()
				tick := time.NewTicker(tickEvery)
				defer tick.Stop()
				var fixed <-chan leader.Entry
				if mode == "once" {
					fixed = ad.Updates()
					mu.Lock()
					chans[fixed] = true
					mu.Unlock()
				}
				for {
					ch := fixed
					if ch == nil {
						ch = ad.Updates()
						mu.Lock()
						chans[ch] = true
						mu.Unlock()
					}
					select {
					case e, ok := <-ch:
						if !ok {
							return
						}
						mu.Lock()
						if e == nil {
							got = append(got, 0)
							gotEmpty = append(gotEmpty, false)
						} else {
							got = append(got, e.Revision())
							gotEmpty = append(gotEmpty, len(e.Value()) == 0)
						}
						mu.Unlock()
					case <-tick.C:
					case <-stopC:
						return
					}
				}
			}
			nCons := 1
			if mode == "multi" {
				nCons = 2 + r.Intn(2)
			}
			for i := 0; i < nCons; i++ {
				wg.Add(1)
				go consume()
			}
			// producer
			var want []uint64
			var wantEmpty []bool
			rev := uint64(0)
			for i := 0; i < nEvents; i++ {
				time.Sleep(r.Dur(0, gapMax))
				switch r.Intn(6) {
				case 0:
					src.ch <- nil
					want = append(want, 0)
					wantEmpty = append(wantEmpty, false)
				case 1:
					rev++
					src.ch <- &stubEntry{bucket: "b", v: &Version{Key: "k", Seq: rev, Op: opDel}}
					want = append(want, rev)
					wantEmpty = append(wantEmpty, true)
				default:
					rev++
					src.ch <- &stubEntry{bucket: "b", v: &Version{Key: "k", Seq: rev, Op: opPut, Val: []byte(fmt.Sprintf("v%d", rev))}}
					want = append(want, rev)
					wantEmpty = append(wantEmpty, false)
				}
				if r.Bool(0.3) {
					synctest.Wait()
					if n := adapterGoroutines(); n > 1 {
						bad("adapter-goroutines-accumulate", fmt.Sprintf("%d goroutines with watcher-adapter frames for one watcher (consumer mode %s) after %d events", n, mode, i+1))
					}
				}
			}
			time.Sleep(2 * tickEvery)
			synctest.Wait()
			judged++
			mu.Lock()
			if len(chans) > 1 {
				bad("updates-channel-not-stable", fmt.Sprintf("Updates() returned %d different channels (consumer mode %s)", len(chans), mode))
			}
			// exactly once, in order
			if len(got) != len(want) {
				lost := len(want) - len(got)
				bad(fmt.Sprintf("watch-events-lost-or-duplicated/mode=%s", mode), fmt.Sprintf("%d events produced, %d received (%+d); produced %v received %v", len(want), len(got), -lost, want, got))
			} else if nCons == 1 {
				for i := range want {
					if want[i] != got[i] {
						bad("watch-events-out-of-order", fmt.Sprintf("produced %v received %v", want, got))
						break
					}
					if wantEmpty[i] != gotEmpty[i] {
						bad("deletion-not-delivered-as-empty-value", fmt.Sprintf("event %d (rev %d): deletion=%v but empty value=%v", i, want[i], wantEmpty[i], gotEmpty[i]))
						break
					}
				}
			} else {
				seen := map[uint64]int{}
				for _, g := range got {
					seen[g]++
				}
				for _, w := range want {
					seen[w]--
				}
				for k, v := range seen {
					if v != 0 {
						bad("watch-events-lost-or-duplicated/mode=multi", fmt.Sprintf("revision %d count off by %d", k, v))
						break
					}
				}
			}
			mu.Unlock()
			ad.Stop()
			close(stopC)
			wg.Wait()
			time.Sleep(time.Second)
			synctest.Wait()
			if n := adapterGoroutines(); n != 0 {
				bad("adapter-goroutines-left-after-stop", fmt.Sprintf("%d goroutines with watcher-adapter frames after Stop()", n))
				// let them go so that the bubble can end
			}

			// ---- a consumer that stops reading, notifications still pending, then Stop - possibly
			// failing underneath (connection already closed): no goroutine may stay behind
			{
				src2 := &scriptWatcher{ch: make(chan nats.KeyValueEntry, 256)}
				if r.Bool(0.5) {
					src2.stopErr = Pick(r, []error{nats.ErrConnectionClosed, nats.ErrBadSubscription})
					src2.noClose = r.Bool(0.5)
				}
				ad2 := leader.VerifNewWatcher(src2)
				ch2 := ad2.Updates()
				pending := r.Intn(5)
				for i := 0; i < pending; i++ {
					src2.ch <- &stubEntry{bucket: "b", v: &Version{Key: "k", Seq: uint64(i + 1), Op: opPut, Val: []byte("x")}}
				}
				if pending > 0 && r.Bool(0.5) {
					<-ch2 // read one, leave the rest
				}
				synctest.Wait()
				ad2.Stop()
				time.Sleep(time.Second)
				synctest.Wait()
				judged++
				if n := adapterGoroutines(); n != 0 {
					bad(fmt.Sprintf("adapter-goroutines-left-after-stop/pending=%v/stop-error=%v", pending >= 2, src2.stopErr != nil), fmt.Sprintf("%d forwarding goroutine(s) alive after Stop() with %d unread notifications (underlying Stop returned %v)", n, pending, src2.stopErr))
					if src2.noClose {
						close(src2.ch) // let it go so that the bubble can end
					}
				}
			}

			// ---- KeyValue adapter pass-through
			sk := &scriptKV{w: &scriptWatcher{ch: make(chan nats.KeyValueEntry, 1)}}
			kv := leader.VerifNewKeyValue(sk)
			sentinel := Pick(r, []error{nil, nats.ErrKeyNotFound, nats.ErrTimeout, nats.ErrKeyExists, errors.New("boom"), &nats.APIError{Code: 400, ErrorCode: nats.JSErrCodeStreamWrongLastSequence, Description: "wrong last sequence: 7"}})
			sk.err, sk.rev = sentinel, 1+r.U64()%1000
			val := []byte(fmt.Sprintf("val-%d", seed))
			if rv, err := kv.Create("kx", val, time.Second); err != sentinel || (err == nil && rv != sk.rev) {
				bad("kv-adapter-create-passthrough", fmt.Sprintf("got (%d,%v) want (%d,%v)", rv, err, sk.rev, sentinel))
			}
			if rv, err := kv.Update("kx", val, 41, time.Second); err != sentinel || (err == nil && rv != sk.rev) {
				bad("kv-adapter-update-passthrough", fmt.Sprintf("got (%d,%v) want (%d,%v)", rv, err, sk.rev, sentinel))
			}
			if err := kv.Delete("kx"); err != sentinel {
				bad("kv-adapter-delete-passthrough", fmt.Sprintf("got %v want %v", err, sentinel))
			}
			sk.entry = nil
			if e, err := kv.Get("kx"); err != sentinel || e != nil {
				bad("kv-adapter-get-nil-entry", fmt.Sprintf("Get with nil entry returned (%v,%v)", e, err))
			}
			if sentinel == nil {
				sk.entry = &stubEntry{bucket: "b", v: &Version{Key: "kx", Seq: 77, Op: opPut, Val: val}}
				e, err := kv.Get("kx")
				if err != nil || e == nil || e.Key() != "kx" || e.Revision() != 77 || string(e.Value()) != string(val) {
					bad("kv-adapter-get-passthrough", fmt.Sprintf("Get returned (%v,%v)", e, err))
				}
			}
			if w, err := kv.Watch("kx"); err != sentinel || (err == nil && w == nil) {
				bad("kv-adapter-watch-passthrough", fmt.Sprintf("Watch returned (%v,%v) want err %v", w, err, sentinel))
			} else if w != nil {
				w.Stop()
			}
			// ---- reads from two application goroutines with an acknowledged write in between: a Get
			// issued after the write was acknowledged returns it, whatever other read is still on its way
			{
				lk := &liveKV{rev: 1, val: []byte("v1"), slowFirstGet: r.Dur(50*time.Millisecond, 400*time.Millisecond)}
				akv := leader.VerifNewKeyValue(lk)
				type ans struct {
					rev uint64
					err error
				}
				first := make(chan ans, 1)
				go func() {
					e, err := akv.Get("kc")
					a := ans{err: err}
					if e != nil {
						a.rev = e.Revision()
					}
					first <- a
				}()
				synctest.Wait() // the first read has been served (revision 1) and its answer is on its way
				nrev, werr := akv.Update("kc", []byte("v2"), 1, time.Second)
				e2, err2 := akv.Get("kc")
				judged++
				if werr != nil || nrev != 2 {
					bad("kv-adapter-update-passthrough", fmt.Sprintf("concurrent scenario: Update returned (%d,%v)", nrev, werr))
				} else if err2 != nil || e2 == nil || e2.Revision() != 2 || string(e2.Value()) != "v2" {
					got := "nil entry"
					if e2 != nil {
						got = fmt.Sprintf("rev=%d val=%q", e2.Revision(), e2.Value())
					}
					bad("kv-adapter-get-stale-after-acknowledged-write", fmt.Sprintf("Update to revision 2 acknowledged, then Get returned %s err=%v while another Get (served at revision 1) was still on its way", got, err2))
				}
				if a := <-first; a.err != nil || a.rev != 1 {
					bad("kv-adapter-get-passthrough", fmt.Sprintf("concurrent scenario: the first Get returned (rev=%d,%v), the bucket had served it revision 1", a.rev, a.err))
				}
			}
			wantCalls := []string{fmt.Sprintf("create kx %q", val), fmt.Sprintf("update kx %q 41", val), "delete kx", "get kx"}
			for i, c := range wantCalls {
				if i >= len(sk.got) || sk.got[i] != c {
					bad("kv-adapter-arguments-changed", fmt.Sprintf("call %d: got %v want %q", i, sk.got, c))
					break
				}
			}
		})
	}()
	res.Viol = viol
	res.Judged = map[string]int{"C14": judged}
	res.Stats.Faults = map[string]int{}
	res.Stats.Probes = map[string]int{"c14_mode_" + mode: 1}
	res.Stats.Terms = 1
	res.Stats.InterleaveH = seed*0x9E3779B97F4A7C15 ^ uint64(nEvents)
	res.LogHash = fmt.Sprintf("%016x", res.Stats.InterleaveH)
	if len(viol) > 0 {
		res.Plan = &Plan{Seed: seed, Family: "c14sim", Judge: []string{"C14"}, Note: fmt.Sprintf("mode=%s events=%d tick=%v gap=%v", mode, nEvents, tickEvery, gapMax)}
	}
	return res
}
